//! Document model shared by every check.
//!
//! `DocVal` is the logical content of a document. It can be handed to the engine in several
//! representations: directly (it implements the public `Object` / `Array` / `AsValue` traits by
//! hand, so the value kind the engine sees is exactly the one written here), as a
//! `serde_yaml::Mapping`, as a `serde_json::Value`, or as `HashMap<String, _>`.

use std::borrow::Cow;
use std::collections::HashMap;

use tau_engine::{AsValue, Value};

#[derive(Clone, Debug, PartialEq)]
pub enum DocVal {
    Null,
    Bool(bool),
    Int(i64),
    UInt(u64),
    Float(f64),
    Str(String),
    Arr(DArr),
    Obj(DObj),
}

#[derive(Clone, Debug, PartialEq, Default)]
pub struct DArr(pub Vec<DocVal>);

#[derive(Clone, Debug, PartialEq, Default)]
pub struct DObj(pub Vec<(String, DocVal)>);

impl DObj {
    pub fn get_val(&self, key: &str) -> Option<&DocVal> {
        self.0.iter().find(|(k, _)| k == key).map(|(_, v)| v)
    }
    pub fn set(&mut self, key: &str, v: DocVal) {
        if let Some(slot) = self.0.iter_mut().find(|(k, _)| k == key) {
            slot.1 = v;
        } else {
            self.0.push((key.to_string(), v));
        }
    }
    pub fn remove(&mut self, key: &str) {
        self.0.retain(|(k, _)| k != key);
    }
    /// Set a value at a dotted path (no indices), creating intermediate objects. Returns false if
    /// an intermediate exists and is not an object.
    pub fn set_path(&mut self, path: &[&str], v: DocVal) -> bool {
        if path.len() == 1 {
            self.set(path[0], v);
            return true;
        }
        if self.get_val(path[0]).is_none() {
            self.set(path[0], DocVal::Obj(DObj::default()));
        }
        match self.0.iter_mut().find(|(k, _)| k == path[0]) {
            Some((_, DocVal::Obj(o))) => o.set_path(&path[1..], v),
            _ => false,
        }
    }
}

impl AsValue for DocVal {
    fn as_value(&self) -> Value<'_> {
        match self {
            DocVal::Null => Value::Null,
            DocVal::Bool(b) => Value::Bool(*b),
            DocVal::Int(i) => Value::Int(*i),
            DocVal::UInt(u) => Value::UInt(*u),
            DocVal::Float(f) => Value::Float(*f),
            DocVal::Str(s) => Value::String(Cow::Borrowed(s.as_str())),
            DocVal::Arr(a) => Value::Array(a),
            DocVal::Obj(o) => Value::Object(o),
        }
    }
}

impl tau_engine::Array for DArr {
    fn iter(&self) -> Box<dyn Iterator<Item = Value<'_>> + '_> {
        Box::new(self.0.as_slice().iter().map(|v| v.as_value()))
    }
    fn len(&self) -> usize {
        self.0.len()
    }
}

impl tau_engine::Object for DObj {
    fn get(&self, key: &str) -> Option<Value<'_>> {
        self.get_val(key).map(|v| v.as_value())
    }
    fn keys(&self) -> Vec<Cow<'_, str>> {
        self.0.iter().map(|(k, _)| Cow::Borrowed(k.as_str())).collect()
    }
    fn len(&self) -> usize {
        self.0.len()
    }
}

impl DocVal {
    pub fn obj(entries: Vec<(&str, DocVal)>) -> DocVal {
        DocVal::Obj(DObj(entries.into_iter().map(|(k, v)| (k.to_string(), v)).collect()))
    }
    pub fn s(x: &str) -> DocVal {
        DocVal::Str(x.to_string())
    }
    pub fn arr(v: Vec<DocVal>) -> DocVal {
        DocVal::Arr(DArr(v))
    }

    pub fn kind(&self) -> &'static str {
        match self {
            DocVal::Null => "null",
            DocVal::Bool(_) => "bool",
            DocVal::Int(_) => "int",
            DocVal::UInt(_) => "uint",
            DocVal::Float(_) => "float",
            DocVal::Str(_) => "str",
            DocVal::Arr(_) => "arr",
            DocVal::Obj(_) => "obj",
        }
    }

    /// Canonical form for representations that cannot carry the signed/unsigned distinction of
    /// non-negative integers (YAML, JSON): a non-negative Int becomes UInt.
    pub fn normalised(&self) -> DocVal {
        match self {
            DocVal::Int(i) if *i >= 0 => DocVal::UInt(*i as u64),
            DocVal::Arr(a) => DocVal::Arr(DArr(a.0.iter().map(|v| v.normalised()).collect())),
            DocVal::Obj(o) => {
                DocVal::Obj(DObj(o.0.iter().map(|(k, v)| (k.clone(), v.normalised())).collect()))
            }
            other => other.clone(),
        }
    }

    pub fn has_nonfinite(&self) -> bool {
        match self {
            DocVal::Float(f) => !f.is_finite(),
            DocVal::Arr(a) => a.0.iter().any(|v| v.has_nonfinite()),
            DocVal::Obj(o) => o.0.iter().any(|(_, v)| v.has_nonfinite()),
            _ => false,
        }
    }

    pub fn to_yaml(&self) -> serde_yaml::Value {
        use serde_yaml::Value as Y;
        match self {
            DocVal::Null => Y::Null,
            DocVal::Bool(b) => Y::Bool(*b),
            DocVal::Int(i) => Y::Number((*i).into()),
            DocVal::UInt(u) => Y::Number((*u).into()),
            DocVal::Float(f) => Y::Number((*f).into()),
            DocVal::Str(s) => Y::String(s.clone()),
            DocVal::Arr(a) => Y::Sequence(a.0.iter().map(|v| v.to_yaml()).collect()),
            DocVal::Obj(o) => {
                let mut m = serde_yaml::Mapping::new();
                for (k, v) in &o.0 {
                    m.insert(Y::String(k.clone()), v.to_yaml());
                }
                Y::Mapping(m)
            }
        }
    }

    /// serde_json rendering; None if the value holds a non-finite float (JSON cannot carry it).
    pub fn to_json(&self) -> Option<serde_json::Value> {
        use serde_json::Value as J;
        Some(match self {
            DocVal::Null => J::Null,
            DocVal::Bool(b) => J::Bool(*b),
            DocVal::Int(i) => J::Number((*i).into()),
            DocVal::UInt(u) => J::Number((*u).into()),
            DocVal::Float(f) => J::Number(serde_json::Number::from_f64(*f)?),
            DocVal::Str(s) => J::String(s.clone()),
            DocVal::Arr(a) => {
                let mut out = vec![];
                for v in &a.0 {
                    out.push(v.to_json()?);
                }
                J::Array(out)
            }
            DocVal::Obj(o) => {
                let mut m = serde_json::Map::new();
                for (k, v) in &o.0 {
                    m.insert(k.clone(), v.to_json()?);
                }
                J::Object(m)
            }
        })
    }

    /// Lossless, kind-preserving JSON used for evidence samples and replay files.
    pub fn to_tagged(&self) -> serde_json::Value {
        use serde_json::json;
        match self {
            DocVal::Null => json!(null),
            DocVal::Bool(b) => json!(b),
            DocVal::Int(i) => json!({"$int": i.to_string()}),
            DocVal::UInt(u) => json!({"$uint": u.to_string()}),
            DocVal::Float(f) => json!({"$float": format!("{:?}", f)}),
            DocVal::Str(s) => json!(s),
            DocVal::Arr(a) => serde_json::Value::Array(a.0.iter().map(|v| v.to_tagged()).collect()),
            DocVal::Obj(o) => {
                let list: Vec<serde_json::Value> =
                    o.0.iter().map(|(k, v)| json!([k, v.to_tagged()])).collect();
                json!({ "$obj": list })
            }
        }
    }

    pub fn from_tagged(v: &serde_json::Value) -> Result<DocVal, String> {
        use serde_json::Value as J;
        Ok(match v {
            J::Null => DocVal::Null,
            J::Bool(b) => DocVal::Bool(*b),
            J::String(s) => DocVal::Str(s.clone()),
            J::Array(a) => {
                let mut out = vec![];
                for x in a {
                    out.push(DocVal::from_tagged(x)?);
                }
                DocVal::Arr(DArr(out))
            }
            J::Number(_) => return Err("bare number in tagged document".into()),
            J::Object(m) => {
                if let Some(J::String(s)) = m.get("$int") {
                    DocVal::Int(s.parse().map_err(|e| format!("{e}"))?)
                } else if let Some(J::String(s)) = m.get("$uint") {
                    DocVal::UInt(s.parse().map_err(|e| format!("{e}"))?)
                } else if let Some(J::String(s)) = m.get("$float") {
                    let f = match s.as_str() {
                        "NaN" => f64::NAN,
                        "inf" => f64::INFINITY,
                        "-inf" => f64::NEG_INFINITY,
                        t => t.parse().map_err(|e| format!("{e}"))?,
                    };
                    DocVal::Float(f)
                } else if let Some(J::Array(list)) = m.get("$obj") {
                    let mut out = vec![];
                    for e in list {
                        let pair = e.as_array().ok_or("bad $obj entry")?;
                        let k = pair.first().and_then(|k| k.as_str()).ok_or("bad $obj key")?;
                        let v = DocVal::from_tagged(pair.get(1).ok_or("bad $obj value")?)?;
                        out.push((k.to_string(), v));
                    }
                    DocVal::Obj(DObj(out))
                } else {
                    return Err("unknown tagged object".into());
                }
            }
        })
    }

    /// Compact human readable text (used in samples).
    pub fn show(&self) -> String {
        match self {
            DocVal::Null => "null".into(),
            DocVal::Bool(b) => b.to_string(),
            DocVal::Int(i) => format!("{}i", i),
            DocVal::UInt(u) => format!("{}u", u),
            DocVal::Float(f) => format!("{:?}f", f),
            DocVal::Str(s) => format!("{:?}", s),
            DocVal::Arr(a) => {
                format!("[{}]", a.0.iter().map(|v| v.show()).collect::<Vec<_>>().join(", "))
            }
            DocVal::Obj(o) => format!(
                "{{{}}}",
                o.0.iter().map(|(k, v)| format!("{:?}: {}", k, v.show())).collect::<Vec<_>>().join(", ")
            ),
        }
    }
}

impl DObj {
    pub fn to_yaml_mapping(&self) -> serde_yaml::Mapping {
        match DocVal::Obj(self.clone()).to_yaml() {
            serde_yaml::Value::Mapping(m) => m,
            _ => unreachable!(),
        }
    }
    pub fn to_json_value(&self) -> Option<serde_json::Value> {
        DocVal::Obj(self.clone()).to_json()
    }
    pub fn to_hashmap_json(&self) -> Option<HashMap<String, serde_json::Value>> {
        let mut m = HashMap::new();
        for (k, v) in &self.0 {
            m.insert(k.clone(), v.to_json()?);
        }
        Some(m)
    }
    pub fn to_hashmap_yaml(&self) -> HashMap<String, serde_yaml::Value> {
        self.0.iter().map(|(k, v)| (k.clone(), v.to_yaml())).collect()
    }
    pub fn to_hashmap_docval(&self) -> HashMap<String, DocVal> {
        self.0.iter().cloned().collect()
    }
    pub fn show(&self) -> String {
        DocVal::Obj(self.clone()).show()
    }
    pub fn to_tagged(&self) -> serde_json::Value {
        DocVal::Obj(self.clone()).to_tagged()
    }
    pub fn from_tagged(v: &serde_json::Value) -> Result<DObj, String> {
        match DocVal::from_tagged(v)? {
            DocVal::Obj(o) => Ok(o),
            _ => Err("document is not an object".into()),
        }
    }
    pub fn normalised(&self) -> DObj {
        match DocVal::Obj(self.clone()).normalised() {
            DocVal::Obj(o) => o,
            _ => unreachable!(),
        }
    }
    pub fn has_nonfinite(&self) -> bool {
        self.0.iter().any(|(_, v)| v.has_nonfinite())
    }
}

/// Independent path resolver (Appendix A.2 of DESIGN.md).
///
/// Split on '.'; each segment is `name` or `name[i]`. The current value must be an object that
/// contains `name`; with an index the value found must be an array with more than `i` elements.
/// Anything else means absent, and absent is final. Returns Err for keys that are not well formed
/// (those are only checked for totality).
pub fn resolve<'a>(root: &'a DObj, path: &str) -> Result<Option<&'a DocVal>, ()> {
    let mut cur: Option<&'a DocVal> = None;
    let mut first = true;
    for seg in path.split('.') {
        let (name, idx) = parse_segment(seg)?;
        let obj: &DObj = if first {
            root
        } else {
            match cur {
                Some(DocVal::Obj(o)) => o,
                _ => return Ok(None),
            }
        };
        first = false;
        let found = match obj.get_val(name) {
            Some(v) => v,
            None => return Ok(None),
        };
        cur = Some(match idx {
            None => found,
            Some(i) => match found {
                DocVal::Arr(a) => match a.0.get(i) {
                    Some(v) => v,
                    None => return Ok(None),
                },
                _ => return Ok(None),
            },
        });
    }
    Ok(cur)
}

/// A well-formed segment is a non-empty name without brackets, optionally followed by one
/// `[digits]` index.
pub fn parse_segment(seg: &str) -> Result<(&str, Option<usize>), ()> {
    if let Some(open) = seg.find('[') {
        let name = &seg[..open];
        let rest = &seg[open + 1..];
        let inner = rest.strip_suffix(']').ok_or(())?;
        if name.is_empty()
            || inner.is_empty()
            || !inner.bytes().all(|b| b.is_ascii_digit())
            || name.contains(']')
        {
            return Err(());
        }
        let i: usize = inner.parse().map_err(|_| ())?;
        Ok((name, Some(i)))
    } else {
        if seg.is_empty() || seg.contains(']') {
            return Err(());
        }
        Ok((seg, None))
    }
}
