//! proptest strategies for rules (grammar G) and documents (recipes D), plus the driver that runs
//! a strategy from a binary with a fixed seed and shrinks failures.

use std::cell::RefCell;

use proptest::prelude::*;
use proptest::strategy::ValueTree;
use proptest::test_runner::{Config, RngAlgorithm, TestCaseError, TestError, TestRng, TestRunner};

use crate::common::{mix, par_run, Case, Outcome, Report, Violation};
use crate::model::{DArr, DObj, DocVal};
use crate::reference;
use crate::spec::*;

// ---------------------------------------------------------------------------------------------
// Vocabulary
// ---------------------------------------------------------------------------------------------

pub const TOP_FIELDS: &[&str] = &[
    "f1", "f2", "f3", "f1", "f2", "n1", "n2", "b1", "o1.x", "o1.y", "o1.p.q", "arr[0]", "arr[1]", "#h",
    "two words", "z1", "o1.l[0]", "o1.l[1]", "o1.l[1].x", "o1.two words",
];
pub const NEST_HOLDERS: &[&str] = &["o1", "objs", "o1.p", "objs[0]", "o1", "objs", "o1.m[1]"];
pub const INNER_FIELDS: &[&str] = &["x", "y", "n", "p.q", "x", "y"];
pub const CAST_FIELDS: &[&str] = &["n1", "n2", "f1", "b1", "o1.x", "arr[0]", "z1", "n1", "n2", "not.before", "or.x", "o1.l[1]"];
pub const IDENT_NAMES_PLAIN: &[&str] = &["A", "B", "C", "D", "E", "F"];
pub const IDENT_NAMES_KEYWORDY: &[&str] =
    &["android", "order", "nothing", "allow", "offline", "integer", "stringent", "notes", "flt1", "of_x", "or.else", "and.x", "not#1", "and[0]", "or#", "not.before"];

/// names that differ only by case
pub const IDENT_NAMES_CASEY: &[&str] = &["sel", "Sel", "SEL", "a", "A", "sEl", "sel1", "sel01", "sel001", "sel10", "sel2"];

pub fn pick<'a>(list: &'a [&'a str], idx: u16) -> &'a str {
    list[(idx as usize * list.len()) >> 16]
}

fn idx() -> impl Strategy<Value = u16> {
    any::<u16>()
}

// ---------------------------------------------------------------------------------------------
// Pattern text
// ---------------------------------------------------------------------------------------------

pub fn needle() -> BoxedStrategy<String> {
    prop_oneof![
        6 => "[abAB]{1,3}",
        2 => "[abAB1 .]{0,3}",
        1 => "[aAé*?\"'. ]{0,3}",
    ]
    .boxed()
}

/// A string pattern text (never numeric) of every documented kind.
pub fn string_pattern() -> BoxedStrategy<String> {
    let form = prop_oneof![
        4 => needle(),
        3 => needle().prop_map(|n| format!("{n}*")),
        3 => needle().prop_map(|n| format!("*{n}")),
        4 => needle().prop_map(|n| format!("*{n}*")),
        1 => Just("*".to_string()),
        1 => needle().prop_map(|n| format!("\"{n}\"")),
        1 => needle().prop_map(|n| format!("'{n}'")),
        // quotes that do not pair up are ordinary characters
        1 => (needle(), 0u8..4).prop_map(|(n, k)| match k {
            0 => format!("\"{n}'"),
            1 => format!("'{n}\""),
            2 => format!("\"{n}"),
            _ => format!("{n}'"),
        }),
        3 => idx().prop_map(|i| format!("?{}", REGEX_VOCAB[(i as usize * REGEX_VOCAB.len()) >> 16].0)),
    ];
    (form, prop::bool::weighted(0.3))
        .prop_map(|(f, ci)| if ci { format!("i{f}") } else { f })
        .prop_filter("pattern must be a loadable string pattern", |t| {
            matches!(reference::parse_pattern(t, false), Ok(p) if p.is_string_kind())
        })
        .boxed()
}

pub fn small_int() -> BoxedStrategy<i64> {
    prop_oneof![
        8 => prop::sample::select(vec![-1i64, 0, 1, 2, 5, 10]),
        1 => prop::sample::select(vec![i64::MAX, i64::MIN, i64::MAX - 1, 1 << 53]),
    ]
    .boxed()
}

pub fn small_float() -> BoxedStrategy<f64> {
    prop::sample::select(vec![0.5f64, 1.0, 1.5, -2.5, 2.0, 1000.25]).boxed()
}

pub fn int_pattern() -> BoxedStrategy<String> {
    (prop::sample::select(vec!["=", ">", ">=", "<", "<="]), small_int())
        .prop_map(|(op, c)| format!("{op}{c}"))
        .boxed()
}

pub fn float_pattern() -> BoxedStrategy<String> {
    (prop::sample::select(vec!["=", ">", ">=", "<", "<="]), small_float())
        .prop_map(|(op, c)| format!("{op}{c:?}"))
        .boxed()
}

// ---------------------------------------------------------------------------------------------
// Entries, blocks, identifiers
// ---------------------------------------------------------------------------------------------

fn string_member() -> BoxedStrategy<ValSpec> {
    string_pattern().prop_map(ValSpec::Str).boxed()
}
fn number_member() -> BoxedStrategy<ValSpec> {
    prop_oneof![
        3 => small_int().prop_map(ValSpec::Int),
        1 => small_float().prop_map(ValSpec::Float),
        3 => int_pattern().prop_map(ValSpec::Str),
        1 => float_pattern().prop_map(ValSpec::Str),
    ]
    .boxed()
}
fn int_member() -> BoxedStrategy<ValSpec> {
    prop_oneof![
        3 => small_int().prop_map(ValSpec::Int),
        3 => int_pattern().prop_map(ValSpec::Str),
        1 => any::<bool>().prop_map(ValSpec::Bool),
        1 => Just(ValSpec::Null),
    ]
    .boxed()
}
fn flt_member() -> BoxedStrategy<ValSpec> {
    prop_oneof![
        4 => small_float().prop_map(ValSpec::Float),
        4 => float_pattern().prop_map(ValSpec::Str),
        1 => Just(ValSpec::Null),
    ]
    .boxed()
}
fn str_cast_member() -> BoxedStrategy<ValSpec> {
    prop_oneof![
        5 => string_member(),
        1 => small_int().prop_map(ValSpec::Int),
        1 => small_float().prop_map(ValSpec::Float),
        1 => any::<bool>().prop_map(ValSpec::Bool),
        1 => Just(ValSpec::Null),
    ]
    .boxed()
}
fn any_scalar_member() -> BoxedStrategy<ValSpec> {
    prop_oneof![
        6 => string_member(),
        3 => number_member(),
        1 => any::<bool>().prop_map(ValSpec::Bool),
        1 => Just(ValSpec::Null),
    ]
    .boxed()
}

fn field(inner: bool) -> BoxedStrategy<String> {
    if inner {
        idx().prop_map(|i| pick(INNER_FIELDS, i).to_string()).boxed()
    } else {
        idx().prop_map(|i| pick(TOP_FIELDS, i).to_string()).boxed()
    }
}

fn holder(inner: bool) -> BoxedStrategy<String> {
    if inner {
        Just("p".to_string()).boxed()
    } else {
        idx().prop_map(|i| pick(NEST_HOLDERS, i).to_string()).boxed()
    }
}

/// One mapping entry. `depth` is the remaining nesting budget, `inner` whether we are inside a
/// nested block (different field vocabulary).
pub fn entry(depth: u32, inner: bool) -> BoxedStrategy<Entry> {
    let scalar_none = (field(inner), any_scalar_member(), prop::bool::weighted(0.12)).prop_map(|(f, v, neg)| Entry {
        key: KeySpec { modifier: if neg { KMod::Not } else { KMod::None }, field: f },
        val: v,
    });
    let str_cast = (field(inner), str_cast_member())
        .prop_map(|(f, v)| Entry { key: KeySpec { modifier: KMod::Str, field: f }, val: v });
    let int_cast = (field(inner), int_member())
        .prop_map(|(f, v)| Entry { key: KeySpec { modifier: KMod::Int, field: f }, val: v });
    let flt_cast = (field(inner), flt_member())
        .prop_map(|(f, v)| Entry { key: KeySpec { modifier: KMod::Flt, field: f }, val: v });
    let plain_list = (
        field(inner),
        prop::collection::vec(
            if depth > 0 {
                prop_oneof![8 => any_scalar_member(), 1 => block(depth - 1, true).prop_map(ValSpec::Block)].boxed()
            } else {
                any_scalar_member()
            },
            1..=5,
        ),
        prop::bool::weighted(0.1),
    )
        .prop_map(|(f, l, neg)| {
            let has_block = l.iter().any(|v| matches!(v, ValSpec::Block(_)));
            Entry {
                key: KeySpec { modifier: if neg && !has_block { KMod::Not } else { KMod::None }, field: f },
                val: ValSpec::List(l),
            }
        });
    let cast_list = prop_oneof![
        (field(inner), prop::collection::vec(str_cast_member(), 1..=4))
            .prop_map(|(f, l)| Entry { key: KeySpec { modifier: KMod::Str, field: f }, val: ValSpec::List(l) }),
        (field(inner), prop::collection::vec(int_member(), 1..=4))
            .prop_map(|(f, l)| Entry { key: KeySpec { modifier: KMod::Int, field: f }, val: ValSpec::List(l) }),
        (field(inner), prop::collection::vec(flt_member(), 1..=3))
            .prop_map(|(f, l)| Entry { key: KeySpec { modifier: KMod::Flt, field: f }, val: ValSpec::List(l) }),
    ];
    // string members of one batch kind (no K3 shape): all case-sensitive needles, all i-needles, or
    // all regexes of one case flag
    let one_batch = (prop::collection::vec(needle(), 1..=5), prop::collection::vec(0u8..4, 5), 0u8..4).prop_map(
        |(ns, kinds, flavour)| {
            ns.iter()
                .zip(kinds)
                .map(|(n, k)| {
                    let n = if n.is_empty() { "a".to_string() } else { n.clone() };
                    let t = match flavour {
                        2 => format!("?{}", REGEX_VOCAB[(n.len() * 7 + k as usize) % REGEX_VOCAB.len()].0),
                        3 => format!("i?{}", REGEX_VOCAB[(n.len() * 5 + k as usize) % REGEX_VOCAB.len()].0),
                        _ => {
                            let base = match k {
                                0 => n.clone(),
                                1 => format!("{n}*"),
                                2 => format!("*{n}"),
                                _ => format!("*{n}*"),
                            };
                            if flavour == 1 {
                                format!("i{base}")
                            } else {
                                base
                            }
                        }
                    };
                    ValSpec::Str(t)
                })
                .filter(|v| matches!(v, ValSpec::Str(t) if matches!(reference::parse_pattern(t, false), Ok(p) if p.is_string_kind())))
                .collect::<Vec<_>>()
        },
    ).prop_filter("non-empty", |v| !v.is_empty());
    let homogeneous = prop_oneof![
        4 => one_batch,
        3 => prop::collection::vec(string_member(), 1..=5),
        2 => prop::collection::vec(number_member(), 1..=4),
        1 => prop::collection::vec(any::<bool>().prop_map(ValSpec::Bool), 1..=2),
        1 => if depth > 0 {
            prop::collection::vec(block(depth - 1, true).prop_map(ValSpec::Block), 1..=3).boxed()
        } else {
            prop::collection::vec(string_member(), 1..=3).boxed()
        },
    ];
    let quantified = (field(inner), homogeneous, 0u64..=4, prop::bool::weighted(0.45)).prop_map(
        |(f, l, n, all)| {
            let is_block = l.iter().any(|v| matches!(v, ValSpec::Block(_)));
            let n = n.min(l.len() as u64 + 1);
            let f = if is_block { "objs".to_string() } else { f };
            Entry {
                key: KeySpec { modifier: if all { KMod::All } else { KMod::Of(n) }, field: f },
                val: ValSpec::List(l),
            }
        },
    );
    if depth > 0 {
        let nested = (holder(inner), block(depth - 1, true))
            .prop_map(|(h, b)| Entry { key: KeySpec::plain(&h), val: ValSpec::Block(b) });
        prop_oneof![
            10 => scalar_none,
            2 => str_cast,
            2 => int_cast,
            1 => flt_cast,
            5 => plain_list,
            2 => cast_list,
            4 => quantified,
            4 => nested,
        ]
        .boxed()
    } else {
        prop_oneof![
            10 => scalar_none,
            2 => str_cast,
            2 => int_cast,
            1 => flt_cast,
            5 => plain_list,
            2 => cast_list,
            4 => quantified,
        ]
        .boxed()
    }
}

pub fn block(depth: u32, inner: bool) -> BoxedStrategy<Block> {
    prop::collection::vec(entry(depth, inner), 1..=4)
        .prop_map(|mut es| {
            // YAML mapping keys are unique: drop later duplicates
            let mut seen: Vec<String> = vec![];
            es.retain(|e| {
                let t = e.key.text();
                if seen.contains(&t) {
                    false
                } else {
                    seen.push(t);
                    true
                }
            });
            Block(es)
        })
        .boxed()
}

pub fn body() -> BoxedStrategy<Body> {
    prop_oneof![
        3 => block(2, false).prop_map(Body::Map),
        2 => prop::collection::vec(block(1, false), 1..=4).prop_map(Body::Seq),
    ]
    .boxed()
}

// ---------------------------------------------------------------------------------------------
// Conditions
// ---------------------------------------------------------------------------------------------

/// Condition shape over identifier *indices* (resolved to names once the number of identifiers is
/// known).
#[derive(Clone, Debug)]
pub enum Shape {
    Id(u16),
    And(Box<Shape>, Box<Shape>),
    Or(Box<Shape>, Box<Shape>),
    Not(Box<Shape>),
    Paren(Box<Shape>),
    All(u16),
    Of(u16, u64),
    Cmp(OperandSpec, &'static str, OperandSpec),
}

fn cast_field() -> BoxedStrategy<String> {
    idx().prop_map(|i| pick(CAST_FIELDS, i).to_string()).boxed()
}

pub fn cmp_shape() -> BoxedStrategy<Shape> {
    let op = prop::sample::select(vec!["==", ">", ">=", "<", "<="]);
    let nonneg_int = prop::sample::select(vec![0i64, 1, 2, 5, 10, i64::MAX, -1, -5, i64::MIN]);
    let nonneg_flt = prop::sample::select(vec![0.5f64, 1.0, 1.5, 2.0, -0.5, -2.5]);
    prop_oneof![
        3 => (cast_field(), op.clone(), nonneg_int.clone())
            .prop_map(|(f, o, c)| Shape::Cmp(OperandSpec::Cast("int", f), o, OperandSpec::Int(c))),
        1 => (cast_field(), op.clone(), nonneg_int)
            .prop_map(|(f, o, c)| Shape::Cmp(OperandSpec::Int(c), o, OperandSpec::Cast("int", f))),
        2 => (cast_field(), op.clone(), nonneg_flt.clone())
            .prop_map(|(f, o, c)| Shape::Cmp(OperandSpec::Cast("flt", f), o, OperandSpec::Float(c))),
        1 => (cast_field(), op.clone(), nonneg_flt)
            .prop_map(|(f, o, c)| Shape::Cmp(OperandSpec::Float(c), o, OperandSpec::Cast("flt", f))),
        1 => (cast_field(), op.clone(), cast_field())
            .prop_map(|(f, o, g)| Shape::Cmp(OperandSpec::Cast("int", f), o, OperandSpec::Cast("int", g))),
        1 => (cast_field(), op, cast_field())
            .prop_map(|(f, o, g)| Shape::Cmp(OperandSpec::Cast("flt", f), o, OperandSpec::Cast("flt", g))),
        1 => (cast_field(), cast_field())
            .prop_map(|(f, g)| Shape::Cmp(OperandSpec::Cast("str", f), "==", OperandSpec::Cast("str", g))),
        1 => (cast_field(), cast_field())
            .prop_map(|(f, g)| Shape::Cmp(OperandSpec::Cast("string", f), "==", OperandSpec::Cast("str", g))),
    ]
    .boxed()
}

pub fn shape(with_quant: bool, with_neg: bool, with_cmp: bool) -> BoxedStrategy<Shape> {
    let mut leaves: Vec<(u32, BoxedStrategy<Shape>)> = vec![(10, idx().prop_map(Shape::Id).boxed())];
    if with_quant {
        leaves.push((2, idx().prop_map(Shape::All).boxed()));
        leaves.push((2, (idx(), 0u64..=3).prop_map(|(i, n)| Shape::Of(i, n)).boxed()));
    }
    if with_cmp {
        leaves.push((2, cmp_shape()));
    }
    let leaf = proptest::strategy::Union::new_weighted(leaves).boxed();
    leaf.prop_recursive(4, 12, 2, move |inner| {
        let mut opts: Vec<(u32, BoxedStrategy<Shape>)> = vec![
            (4, (inner.clone(), inner.clone()).prop_map(|(a, b)| Shape::And(Box::new(a), Box::new(b))).boxed()),
            (4, (inner.clone(), inner.clone()).prop_map(|(a, b)| Shape::Or(Box::new(a), Box::new(b))).boxed()),
            (1, inner.clone().prop_map(|a| Shape::Paren(Box::new(a))).boxed()),
        ];
        if with_neg {
            opts.push((3, inner.clone().prop_map(|a| Shape::Not(Box::new(a))).boxed()));
        }
        proptest::strategy::Union::new_weighted(opts)
    })
    .boxed()
}

pub fn resolve_shape(s: &Shape, names: &[String]) -> CondSpec {
    let name = |i: u16| names[(i as usize * names.len()) >> 16].clone();
    match s {
        Shape::Id(i) => CondSpec::Ident(name(*i)),
        Shape::And(a, b) => CondSpec::And(Box::new(resolve_shape(a, names)), Box::new(resolve_shape(b, names))),
        Shape::Or(a, b) => CondSpec::Or(Box::new(resolve_shape(a, names)), Box::new(resolve_shape(b, names))),
        Shape::Not(a) => CondSpec::Not(Box::new(resolve_shape(a, names))),
        Shape::Paren(a) => CondSpec::Paren(Box::new(resolve_shape(a, names))),
        Shape::All(i) => CondSpec::All(name(*i)),
        Shape::Of(i, n) => CondSpec::Of(name(*i), *n),
        Shape::Cmp(a, o, b) => CondSpec::Cmp(a.clone(), o, b.clone()),
    }
}

#[derive(Clone, Copy, Debug)]
pub struct RuleOpts {
    pub quantifiers: bool,
    pub negation: bool,
    pub comparisons: bool,
}

impl Default for RuleOpts {
    fn default() -> Self {
        RuleOpts { quantifiers: true, negation: true, comparisons: true }
    }
}

fn strip_negation_block(b: &mut Block) {
    for e in &mut b.0 {
        match &e.key.modifier {
            KMod::Not => e.key.modifier = KMod::None,
            KMod::Of(0) => e.key.modifier = KMod::Of(1),
            _ => {}
        }
        match &mut e.val {
            ValSpec::Block(x) => strip_negation_block(x),
            ValSpec::List(l) => {
                for v in l {
                    if let ValSpec::Block(x) = v {
                        strip_negation_block(x)
                    }
                }
            }
            _ => {}
        }
    }
    // removing modifiers can create duplicate keys
    let mut seen: Vec<String> = vec![];
    b.0.retain(|e| {
        let t = e.key.text();
        if seen.contains(&t) {
            false
        } else {
            seen.push(t);
            true
        }
    });
}

/// Grammar G: a rule that is meant to load.
pub fn rule(opts: RuleOpts) -> BoxedStrategy<RuleSpec> {
    (
        prop::collection::vec(body(), 1..=4),
        shape(opts.quantifiers, opts.negation, opts.comparisons),
        0u8..10,
        any::<u16>(),
    )
        .prop_map(move |(bodies, sh, style, rot)| {
            let pool: &[&str] = match style {
                0 | 1 => IDENT_NAMES_KEYWORDY,
                2 => IDENT_NAMES_CASEY,
                _ => IDENT_NAMES_PLAIN,
            };
            let start = (rot as usize) % pool.len();
            let names: Vec<String> =
                (0..bodies.len()).map(|i| pool[(start + i) % pool.len()].to_string()).collect();
            let mut idents: Vec<(String, Body)> = names.iter().cloned().zip(bodies).collect();
            if !opts.negation {
                for (_, b) in idents.iter_mut() {
                    for bl in b.blocks_mut() {
                        strip_negation_block(bl);
                    }
                }
            }
            let mut cond = resolve_shape(&sh, &names);
            if !opts.negation {
                cond = strip_cond_negation(cond);
            }
            RuleSpec { idents, cond }
        })
        .boxed()
}

fn strip_cond_negation(c: CondSpec) -> CondSpec {
    match c {
        CondSpec::Of(n, 0) => CondSpec::Of(n, 1),
        CondSpec::Not(x) => strip_cond_negation(*x),
        CondSpec::And(a, b) => CondSpec::And(Box::new(strip_cond_negation(*a)), Box::new(strip_cond_negation(*b))),
        CondSpec::Or(a, b) => CondSpec::Or(Box::new(strip_cond_negation(*a)), Box::new(strip_cond_negation(*b))),
        CondSpec::Paren(x) => CondSpec::Paren(Box::new(strip_cond_negation(*x))),
        other => other,
    }
}

/// Rules shaped like the optimiser's targets: few fields shared between identifiers and entries
/// (same-field searches to merge, same-holder nested blocks, or-groups over shared fields for the
/// matrix), combined by flat and/or chains.
pub fn rule_focus(with_neg: bool) -> BoxedStrategy<RuleSpec> {
    let pat = || {
        prop_oneof![
            3 => "[ab]{1,2}".prop_map(|n| n.to_string()),
            1 => prop::sample::select(vec!["1", "5", "1*", "*5", "*1*", "12", "true", "t*"]).prop_map(|s| s.to_string()),
            2 => "[ab]{1,2}".prop_map(|n| format!("*{n}*")),
            1 => "[ab]{1,2}".prop_map(|n| format!("{n}*")),
            1 => "[ab]{1,2}".prop_map(|n| format!("i*{n}")),
            1 => prop::sample::select(vec!["?a", "?.*ab", "?b$", "i?a.*"]).prop_map(|s| s.to_string()),
        ]
        .prop_map(ValSpec::Str)
    };
    let inner_entry = (prop::sample::select(vec!["x", "y"]), pat())
        .prop_map(|(f, v)| Entry { key: KeySpec::plain(f), val: v });
    let inner_block = prop::collection::vec(inner_entry, 1..=2).prop_map(|mut es| {
        es.dedup_by(|a, b| a.key.field == b.key.field);
        if es.len() == 2 && es[0].key.field == es[1].key.field {
            es.pop();
        }
        Block(es)
    });
    let entry = prop_oneof![
        4 => (prop::sample::select(vec!["f1", "f2"]), pat()).prop_map(|(f, v)| Entry { key: KeySpec::plain(f), val: v }),
        2 => (prop::sample::select(vec!["f1", "f2"]), prop::collection::vec(pat(), 2..=3))
            .prop_map(|(f, l)| Entry { key: KeySpec::plain(f), val: ValSpec::List(l) }),
        3 => (prop::sample::select(vec!["o1", "objs"]), inner_block)
            .prop_map(|(h, b)| Entry { key: KeySpec::plain(h), val: ValSpec::Block(b) }),
        1 => (prop::sample::select(vec!["n1"]), small_int()).prop_map(|(f, i)| Entry { key: KeySpec::plain(f), val: ValSpec::Int(i) }),
        1 => (prop::sample::select(vec!["f1", "n1"]), small_int())
            .prop_map(|(f, i)| Entry { key: KeySpec { modifier: KMod::Int, field: f.to_string() }, val: ValSpec::Int(i) }),
        2 => (prop::sample::select(vec!["f1", "f2", "n1"]), pat())
            .prop_map(|(f, v)| Entry { key: KeySpec { modifier: KMod::Str, field: f.to_string() }, val: v }),
    ];
    let blk = prop::collection::vec(entry, 1..=3).prop_map(|es| {
        let mut seen: Vec<String> = vec![];
        Block(
            es.into_iter()
                .filter(|e| {
                    let t = e.key.text();
                    if seen.contains(&t) {
                        false
                    } else {
                        seen.push(t);
                        true
                    }
                })
                .collect(),
        )
    });
    let body = prop_oneof![
        3 => blk.clone().prop_map(Body::Map),
        2 => prop::collection::vec(blk, 2..=4).prop_map(Body::Seq),
    ];
    (prop::collection::vec(body, 2..=6), 0u8..12, any::<u8>())
        .prop_map(move |(bodies, form, bits)| {
            let names: Vec<String> = IDENT_NAMES_PLAIN.iter().take(bodies.len()).map(|s| s.to_string()).collect();
            let lit = |i: usize| -> CondSpec {
                let base = CondSpec::Ident(names[i].clone());
                if with_neg && (bits >> i) & 1 == 1 && form >= 6 {
                    CondSpec::Not(Box::new(base))
                } else {
                    base
                }
            };
            let chain = |and: bool| -> CondSpec {
                let mut c = lit(0);
                for i in 1..names.len() {
                    c = if and {
                        CondSpec::And(Box::new(c), Box::new(lit(i)))
                    } else {
                        CondSpec::Or(Box::new(c), Box::new(lit(i)))
                    };
                }
                c
            };
            let cond = match form {
                0 | 6 => chain(true),
                1 | 7 => chain(false),
                2 => {
                    // (A and B [and cast comparison]) or C ...
                    let mut c = CondSpec::And(Box::new(lit(0)), Box::new(lit(1)));
                    if bits & 0x80 != 0 {
                        let (f, g) = if bits & 0x40 != 0 { ("n1", "f1") } else { ("f1", "n1") };
                        let cmp = if bits & 0x20 != 0 {
                            CondSpec::Cmp(OperandSpec::Cast("int", f.to_string()), "==", OperandSpec::Cast("int", g.to_string()))
                        } else {
                            // the constant on either side, integer or float
                            match bits & 0x18 {
                                0x00 => CondSpec::Cmp(OperandSpec::Cast("int", f.to_string()), ">", OperandSpec::Int(1)),
                                0x08 => CondSpec::Cmp(OperandSpec::Int(1), "<", OperandSpec::Cast("int", f.to_string())),
                                0x10 => CondSpec::Cmp(OperandSpec::Cast("flt", f.to_string()), ">=", OperandSpec::Float(1.5)),
                                _ => CondSpec::Cmp(OperandSpec::Float(1.5), "<=", OperandSpec::Cast("flt", f.to_string())),
                            }
                        };
                        c = CondSpec::And(Box::new(c), Box::new(cmp));
                    }
                    for i in 2..names.len() {
                        c = CondSpec::Or(Box::new(c), Box::new(lit(i)));
                    }
                    c
                }
                3 => {
                    let mut c = CondSpec::Or(Box::new(lit(0)), Box::new(lit(1)));
                    for i in 2..names.len() {
                        c = CondSpec::And(Box::new(CondSpec::Paren(Box::new(c))), Box::new(lit(i)));
                    }
                    c
                }
                8 | 9 => {
                    // (A and B and C) or D or E ...: a conjunction of three inside a disjunction
                    let k = names.len().min(3);
                    let mut c = lit(0);
                    for i in 1..k {
                        c = CondSpec::And(Box::new(c), Box::new(lit(i)));
                    }
                    let mut c = CondSpec::Paren(Box::new(c));
                    for i in k..names.len() {
                        c = CondSpec::Or(Box::new(c), Box::new(lit(i)));
                    }
                    if with_neg && form == 9 {
                        CondSpec::Not(Box::new(CondSpec::Paren(Box::new(c))))
                    } else {
                        c
                    }
                }
                10 | 11 => {
                    // (A or B or C) and D and E ...
                    let k = names.len().min(3);
                    let mut c = lit(0);
                    for i in 1..k {
                        c = CondSpec::Or(Box::new(c), Box::new(lit(i)));
                    }
                    let mut c = CondSpec::Paren(Box::new(c));
                    for i in k..names.len() {
                        c = CondSpec::And(Box::new(c), Box::new(lit(i)));
                    }
                    if with_neg && form == 11 {
                        CondSpec::Not(Box::new(CondSpec::Paren(Box::new(c))))
                    } else {
                        c
                    }
                }
                4 => {
                    if with_neg {
                        CondSpec::Not(Box::new(CondSpec::Paren(Box::new(chain(true)))))
                    } else {
                        chain(true)
                    }
                }
                _ => {
                    if with_neg {
                        CondSpec::Not(Box::new(CondSpec::Paren(Box::new(chain(false)))))
                    } else {
                        chain(false)
                    }
                }
            };
            RuleSpec { idents: names.iter().cloned().zip(bodies).collect(), cond }
        })
        .boxed()
}

/// Every identifier is a nested block (or a sequence of nested blocks) on ONE holder field, combined
/// by a random condition over 3-6 identifiers: the shape in which shake merges nested blocks of
/// conjunctions and disjunctions and the solver evaluates them across the elements of an array.
pub fn rule_nested_focus(with_neg: bool) -> BoxedStrategy<RuleSpec> {
    let inner_entry = (prop::sample::select(vec!["x", "y", "n", "x", "y"]), prop_oneof![
        4 => "[ab]{1,2}".prop_map(ValSpec::Str),
        1 => "[ab]".prop_map(|n| ValSpec::Str(format!("*{n}*"))),
        1 => small_int().prop_map(ValSpec::Int),
        1 => prop::collection::vec("[ab]{1,2}".prop_map(ValSpec::Str), 2..=3).prop_map(ValSpec::List),
    ])
        .prop_map(|(f, v)| Entry { key: KeySpec::plain(f), val: v });
    // a quantified list whose members are of different kinds (so they are not batched): on an array
    // of objects one element has to satisfy the quantifier, not one element per member
    let quantified_entry = (
        prop::sample::select(vec!["x", "y", "n"]),
        prop::collection::vec(("[ab]", 0u8..5), 2..=3),
        prop::sample::select(vec![KMod::All, KMod::All, KMod::Of(2), KMod::Of(1)]),
    )
        .prop_map(|(f, ms, q)| {
            let members: Vec<ValSpec> = if f == "n" {
                ms.iter()
                    .enumerate()
                    .map(|(i, (_, k))| ValSpec::Str(match (i + *k as usize) % 3 {
                        0 => ">1".to_string(),
                        1 => "<5".to_string(),
                        _ => ">=3".to_string(),
                    }))
                    .collect()
            } else {
                ms.iter()
                    .map(|(n, k)| ValSpec::Str(match k {
                        0 => format!("*{n}*"),
                        1 => format!("?{n}"),
                        2 => format!("{n}*"),
                        3 => format!("i{n}"),
                        _ => format!("*{n}"),
                    }))
                    .collect()
            };
            Entry { key: KeySpec { modifier: q, field: f.to_string() }, val: ValSpec::List(members) }
        });
    let inner_entry = prop_oneof![5 => inner_entry, 2 => quantified_entry];
    let inner_block = prop::collection::vec(inner_entry, 1..=2).prop_map(|es| {
        let mut seen: Vec<String> = vec![];
        Block(
            es.into_iter()
                .filter(|e| {
                    if seen.contains(&e.key.field) {
                        false
                    } else {
                        seen.push(e.key.field.clone());
                        true
                    }
                })
                .collect(),
        )
    });
    (
        prop::sample::select(vec!["o1", "objs"]),
        prop::collection::vec(
            (inner_block, prop::bool::weighted(0.2), prop_oneof![15 => Just(0u8), 2 => Just(1u8), 3 => Just(2u8)]),
            3..=6,
        ),
        shape(false, with_neg, false),
        0u8..6,
    )
        .prop_map(move |(holder, blocks, sh, form)| {
            let names: Vec<String> = IDENT_NAMES_PLAIN.iter().take(blocks.len()).map(|s| s.to_string()).collect();
            let idents: Vec<(String, Body)> = names
                .iter()
                .cloned()
                .zip(blocks.into_iter().map(|(b, as_seq, extra)| {
                    let nested = Block(vec![Entry { key: KeySpec::plain(holder), val: ValSpec::Block(b.clone()) }]);
                    if as_seq {
                        Body::Seq(vec![nested.clone(), nested])
                    } else if extra == 1 {
                        // a second, flat entry next to the nested block
                        let mut n = nested;
                        n.0.push(Entry { key: KeySpec::plain("f1"), val: ValSpec::Str("a".into()) });
                        Body::Map(n)
                    } else if extra == 2 && b.0.iter().any(|e| e.key.modifier == KMod::None) {
                        // a dotted sibling that reaches into the holder (`o1.x: a` next to `o1: {..}`):
                        // on an array of objects the dotted key is missing while the block ranges over
                        // the elements
                        let mut n = nested;
                        let e = b.0.iter().rev().find(|e| e.key.modifier == KMod::None).unwrap();
                        n.0.push(Entry { key: KeySpec::plain(&format!("{holder}.{}", e.key.field)), val: e.val.clone() });
                        Body::Map(n)
                    } else {
                        Body::Map(nested)
                    }
                }))
                .collect();
            let id = |i: usize| CondSpec::Ident(names[i % names.len()].clone());
            let chain = |from: usize, to: usize, and: bool| -> CondSpec {
                let mut c = id(from);
                for i in from + 1..to {
                    c = if and {
                        CondSpec::And(Box::new(c), Box::new(id(i)))
                    } else {
                        CondSpec::Or(Box::new(c), Box::new(id(i)))
                    };
                }
                c
            };
            let n = names.len();
            let k = (n / 2).max(2).min(n - 1);
            let cond = match form {
                // (A and B and ..) or rest..
                0 => {
                    let mut c = CondSpec::Paren(Box::new(chain(0, k + 1, true)));
                    for i in k + 1..n {
                        c = CondSpec::Or(Box::new(c), Box::new(id(i)));
                    }
                    if n == k + 1 {
                        CondSpec::Or(Box::new(c), Box::new(id(0)))
                    } else {
                        c
                    }
                }
                // (A or B or ..) and rest..
                1 => {
                    let mut c = CondSpec::Paren(Box::new(chain(0, k + 1, false)));
                    for i in k + 1..n {
                        c = CondSpec::And(Box::new(c), Box::new(id(i)));
                    }
                    c
                }
                2 => chain(0, n, true),
                3 => chain(0, n, false),
                _ => resolve_shape(&sh, &names),
            };
            let cond = if with_neg && form == 2 { CondSpec::Not(Box::new(CondSpec::Paren(Box::new(cond)))) } else { cond };
            RuleSpec { idents, cond }
        })
        .boxed()
}

/// Documents for nested-focus rules: the holder is an object or an array of 1-4 objects, each
/// element built from a few of the rule's inner predicates (made true or nearly true), so that
/// different elements satisfy different blocks.
pub fn nested_docs(rule: &RuleSpec, picks: &[(u16, u8)]) -> Vec<DObj> {
    let leaves: Vec<Leaf> = collect_leaves(rule).into_iter().filter(|l| !l.prefix.is_empty()).collect();
    let holder = leaves.first().map(|l| l.prefix[0].clone()).unwrap_or_else(|| "o1".to_string());
    let mut docs = vec![DObj::default()];
    if leaves.is_empty() {
        return docs;
    }
    let mut it = picks.iter();
    for shape in 0..6u8 {
        let n_elems = match shape {
            0 => 0,
            1 | 2 => 1,
            3 => 2,
            4 => 3,
            _ => 4,
        };
        let mut elems = vec![];
        for _ in 0..n_elems.max(1) {
            let mut o = DObj::default();
            for _ in 0..2 {
                if let Some((p, v)) = it.next() {
                    let leaf = &leaves[(*p as usize * leaves.len()) >> 16];
                    let inner = Leaf { prefix: vec![], ..leaf.clone() };
                    place(&mut o, &inner, Some(value_for(&inner, v % 4 != 0, *v)), false);
                }
            }
            elems.push(DocVal::Obj(o));
        }
        let mut d = DObj::default();
        d.set("f1", DocVal::s("a"));
        match shape {
            0 => d.set(&holder, DocVal::Arr(DArr(vec![]))),
            1 => d.set(&holder, elems.into_iter().next().unwrap()),
            _ => {
                if shape == 5 {
                    elems.insert(1, DocVal::s("not an object"));
                }
                d.set(&holder, DocVal::Arr(DArr(elems)))
            }
        }
        docs.push(d);
    }
    docs
}

/// Everything about ONE field: 3-6 single-entry identifiers on the same field with different key
/// modifiers (none, str, int, not) and pattern kinds, combined by chains with random negations and
/// quantifiers, against documents that give the field every value kind.
pub fn rule_same_field_focus() -> BoxedStrategy<RuleSpec> {
    let entry = |field: &'static str| {
        prop_oneof![
            4 => ("[ab15]{1,2}", 0u8..5, any::<bool>()).prop_map(move |(n, k, ci)| {
                let t = match k {
                    0 => n.clone(),
                    1 => format!("{n}*"),
                    2 => format!("*{n}"),
                    3 => format!("*{n}*"),
                    _ => format!("?{n}"),
                };
                Entry { key: KeySpec::plain(field), val: ValSpec::Str(if ci { format!("i{t}") } else { t }) }
            }),
            3 => ("[ab15]{1,2}", 0u8..4, any::<bool>()).prop_map(move |(n, k, ci)| {
                let t = match k {
                    0 => n.clone(),
                    1 => format!("{n}*"),
                    2 => format!("*{n}*"),
                    _ => format!("?{n}"),
                };
                Entry {
                    key: KeySpec { modifier: KMod::Str, field: field.to_string() },
                    val: ValSpec::Str(if ci { format!("i{t}") } else { t }),
                }
            }),
            1 => small_int().prop_map(move |i| Entry { key: KeySpec::plain(field), val: ValSpec::Int(i) }),
            1 => int_pattern().prop_map(move |p| Entry {
                key: KeySpec { modifier: KMod::Int, field: field.to_string() },
                val: ValSpec::Str(p),
            }),
            1 => "[ab15]{1,2}".prop_map(move |n| Entry {
                key: KeySpec { modifier: KMod::Not, field: field.to_string() },
                val: ValSpec::Str(n),
            }),
            1 => any::<bool>().prop_map(move |b| Entry { key: KeySpec::plain(field), val: ValSpec::Bool(b) }),
            // lists of two or three members of one relation kind (batched into one automaton /
            // regex set), plain, quantified or under str()
            5 => (prop::collection::vec(("[ab15]{1,2}", 0u8..4), 2..=3), any::<bool>(), 0u8..6, any::<bool>()).prop_map(
                move |(ms, ci, q, regex)| {
                    let mut members: Vec<ValSpec> = ms
                        .iter()
                        .map(|(n, k)| {
                            let t = if regex {
                                format!("?{n}")
                            } else {
                                match k {
                                    0 => n.clone(),
                                    1 => format!("{n}*"),
                                    2 => format!("*{n}"),
                                    _ => format!("*{n}*"),
                                }
                            };
                            ValSpec::Str(if ci { format!("i{t}") } else { t })
                        })
                        .collect();
                    let modifier = match q {
                        0 => KMod::All,
                        1 => KMod::Of(2),
                        2 => KMod::Str,
                        _ => KMod::None,
                    };
                    // now and then an empty-string member joins the batch
                    if !regex && ms.len() == 3 && ms[0].1 == 0 {
                        members[0] = ValSpec::Str(if ci { "i".to_string() } else { "''".to_string() });
                    }
                    Entry { key: KeySpec { modifier, field: field.to_string() }, val: ValSpec::List(members) }
                }
            ),
        ]
    };
    // the same entry with the case flag of every string member flipped: equal needles, other flag
    fn case_twin(e: &Entry) -> Option<Entry> {
        let flip = |t: &str| -> String {
            match t.strip_prefix('i') {
                Some(rest) if !rest.is_empty() => rest.to_string(),
                _ => format!("i{t}"),
            }
        };
        let val = match &e.val {
            ValSpec::Str(t) => ValSpec::Str(flip(t)),
            ValSpec::List(ms) => ValSpec::List(
                ms.iter()
                    .map(|m| match m {
                        ValSpec::Str(t) => Some(ValSpec::Str(flip(t))),
                        _ => None,
                    })
                    .collect::<Option<Vec<_>>>()?,
            ),
            _ => return None,
        };
        Some(Entry { key: e.key.clone(), val })
    }
    (
        prop::collection::vec((entry("f1"), prop::bool::weighted(0.15)), 3..=6).prop_flat_map(|es| {
            (Just(es), any::<u8>(), any::<u8>())
        }).prop_map(|(mut es, twin, at)| {
            // now and then one entry gets its case twin as a further identifier
            if twin % 3 != 2 && es.len() < 6 {
                // lists first (a batch of its own with either flag), single patterns otherwise
                let lists: Vec<usize> =
                    es.iter().enumerate().filter(|(_, (e, _))| matches!(e.val, ValSpec::List(_))).map(|(i, _)| i).collect();
                let i = if twin % 3 == 0 && !lists.is_empty() {
                    lists[at as usize % lists.len()]
                } else {
                    at as usize % es.len()
                };
                if let Some(t) = case_twin(&es[i].0) {
                    let pos = (at as usize / 7) % (es.len() + 1);
                    es.insert(pos, (t, es[i].1));
                }
            }
            es
        }),
        0u8..10,
        any::<u8>(),
        0u64..=2,
    )
        .prop_map(|(entries, form, bits, n)| {
            let names: Vec<String> = IDENT_NAMES_PLAIN.iter().take(entries.len()).map(|s| s.to_string()).collect();
            let idents: Vec<(String, Body)> = names
                .iter()
                .cloned()
                .zip(entries.iter().enumerate().map(|(i, (e, as_seq))| {
                    if *as_seq {
                        // a sequence of single-key mappings on the one field: this entry and its
                        // neighbour
                        let mut blocks = vec![Block(vec![e.clone()])];
                        if let Some((next, _)) = entries.get(i + 1) {
                            blocks.push(Block(vec![next.clone()]));
                        }
                        Body::Seq(blocks)
                    } else {
                        Body::Map(Block(vec![e.clone()]))
                    }
                }))
                .collect();
            let lit = |i: usize| -> CondSpec {
                let base = match (form, i % 3) {
                    (8, 0) => CondSpec::Of(names[i].clone(), n),
                    (8, 1) | (9, 0) => CondSpec::All(names[i].clone()),
                    (9, 1) => CondSpec::Of(names[i].clone(), 1),
                    _ => CondSpec::Ident(names[i].clone()),
                };
                let negate = match form {
                    0 | 1 => false,
                    2 | 3 => true,
                    _ => (bits >> i) & 1 == 1,
                };
                if negate {
                    CondSpec::Not(Box::new(base))
                } else {
                    base
                }
            };
            let and = matches!(form, 0 | 2 | 4 | 6 | 8);
            let mut c = lit(0);
            for i in 1..names.len() {
                c = if and {
                    CondSpec::And(Box::new(c), Box::new(lit(i)))
                } else {
                    CondSpec::Or(Box::new(c), Box::new(lit(i)))
                };
            }
            if form >= 6 && bits & 0x80 != 0 {
                c = CondSpec::Not(Box::new(CondSpec::Paren(Box::new(c))));
            }
            RuleSpec { idents, cond: c }
        })
        .boxed()
}

/// Documents for same-field rules: the field with every value kind.
pub fn same_field_docs(field: &str) -> Vec<DObj> {
    let vals = vec![
        DocVal::s("a"), DocVal::s("ab"), DocVal::s("b"), DocVal::s("1"), DocVal::s("5"), DocVal::s("15"), DocVal::s("A"), DocVal::s("xbx"),
        DocVal::s("AB"), DocVal::s("B"), DocVal::s("aB"), DocVal::s("XBX"), DocVal::s("b1"), DocVal::s("A5"),
        DocVal::s(""), DocVal::Int(1), DocVal::Int(5), DocVal::Int(-1), DocVal::Int(15), DocVal::UInt(1), DocVal::UInt(5), DocVal::UInt(51),
        DocVal::Float(1.0), DocVal::Float(1.5), DocVal::Bool(true), DocVal::Bool(false), DocVal::Null,
        DocVal::arr(vec![DocVal::s("a"), DocVal::Int(5)]), DocVal::arr(vec![]), DocVal::obj(vec![("x", DocVal::s("a"))]),
    ];
    std::iter::once(DObj::default()).chain(vals.into_iter().map(|v| DObj(vec![(field.to_string(), v)]))).collect()
}

/// Case twins: two identifiers on one field with equal needles, one case-sensitive and one
/// case-insensitive (as single patterns, plain lists, quantified lists, lists under str()), next to
/// an identifier that never matches and one that always does, under several connective shapes and
/// in both orders. Returns (rule text with the sensitive twin first, the same with the insensitive
/// twin first, documents).
pub fn twin_rules() -> Vec<(String, String, Vec<DObj>)> {
    let mut out = vec![];
    let member_sets: Vec<(Vec<&str>, &str, &str)> = vec![
        // (members, a text matching all of them, a text matching only some)
        (vec!["*ab*", "*ba*"], "abba", "ab"),
        (vec!["ab*", "*ba"], "abxba", "abx"),
        (vec!["ab*", "*b*", "*ba"], "abba", "ab"),
        (vec!["?ab", "?b+a"], "abba", "ab"),
        (vec!["abba", "*bb*"], "abba", "xbbx"),
    ];
    let keys = ["f1", "all(f1)", "of(f1, 2)", "str(f1)", "of(f1, 1)"];
    let conds = [
        "N or X or Y", "X or Y or N", "X or N or Y", "T and X and Y", "X and Y and T", "(N or X) or (Y or N)", "N or (T and X and Y)",
        "not (N or X or Y)", "T and (X or Y or N)", "all(X) or of(Y, 1) or N", "X or Y",
        // an identifier that is both counted and used as it is
        "X and not all(X)", "all(Y) or Y or N", "N or X or of(X, 2)", "Y and of(Y, 1) and T",
    ];
    for (members, full, part) in &member_sets {
        for key in keys {
            let list = |ci: bool| -> String {
                members.iter().map(|m| format!("    - '{}{m}'\n", if ci { "i" } else { "" })).collect()
            };
            let docs: Vec<DObj> = [full.to_string(), full.to_uppercase(), part.to_string(), part.to_uppercase(), "zz".to_string()]
                .into_iter()
                .map(|t| DObj(vec![("f1".to_string(), DocVal::Str(t))]))
                .chain(std::iter::once(DObj::default()))
                .collect();
            for cond in conds {
                let mk = |first_ci: bool| {
                    let (x, y) = (list(first_ci), list(!first_ci));
                    format!(
                        "detection:\n  X:\n    {key}:\n{x}  Y:\n    {key}:\n{y}  N:\n    f1: nomatch\n  T:\n    f1: '*'\n  condition: {cond}\ntrue_positives: []\ntrue_negatives: []\n"
                    )
                };
                out.push((mk(false), mk(true), docs.clone()));
            }
        }
    }
    // single patterns as twins
    for p in ["ab", "ab*", "*ab", "*ab*", "?ab"] {
        let docs: Vec<DObj> = ["ab", "AB", "xabx", "XABX", "zz"]
            .iter()
            .map(|t| DObj(vec![("f1".to_string(), DocVal::s(t))]))
            .collect();
        for cond in ["N or X or Y", "X or Y or N", "T and X and Y", "not (X or N or Y)"] {
            let mk = |first_ci: bool| {
                let (x, y) = if first_ci { (format!("i{p}"), p.to_string()) } else { (p.to_string(), format!("i{p}")) };
                format!(
                    "detection:\n  X:\n    f1: '{x}'\n  Y:\n    f1: '{y}'\n  N:\n    f1: nomatch\n  T:\n    f1: '*'\n  condition: {cond}\ntrue_positives: []\ntrue_negatives: []\n"
                )
            };
            out.push((mk(false), mk(true), docs.clone()));
        }
    }
    // whole-entry twins in a sequence of mappings: two entries that are equal except for the case
    // flag of every member of their lists, next to each other, with 1-3 keys per entry and 0-3
    // further entries around them (rows of one matrix; entries of one or-group)
    for (members, full, _part) in &member_sets {
        for n_keys in 1..=3usize {
            for (before, after) in [(0usize, 0usize), (1, 0), (0, 2), (2, 1), (3, 3)] {
                let entry = |ci: bool| -> String {
                    let mut e = String::from("  - f1:\n");
                    for m in members {
                        e.push_str(&format!("    - '{}{m}'\n", if ci { "i" } else { "" }));
                    }
                    if n_keys >= 2 {
                        e.push_str("    f2: 'b*'\n");
                    }
                    if n_keys >= 3 {
                        e.push_str(&format!("    f3:\n    - '{}*c*'\n    - '{}d'\n", if ci { "i" } else { "" }, if ci { "i" } else { "" }));
                    }
                    e
                };
                let pad = |i: usize| -> String {
                    match i % 3 {
                        0 => format!("  - f1: pad{i}\n    f2: 'q*'\n"),
                        1 => format!("  - f2: pad{i}\n    f3: [x{i}, y{i}]\n"),
                        _ => format!("  - f3: 'pad{i}*'\n    f1: ['*p{i}*', '*r{i}*']\n"),
                    }
                };
                let mk = |first_ci: bool| {
                    let mut body = String::new();
                    for i in 0..before {
                        body.push_str(&pad(i));
                    }
                    body.push_str(&entry(first_ci));
                    body.push_str(&entry(!first_ci));
                    for i in 0..after {
                        body.push_str(&pad(before + i));
                    }
                    format!("detection:\n  A:\n{body}  condition: A\ntrue_positives: []\ntrue_negatives: []\n")
                };
                let docs: Vec<DObj> = [full.to_string(), full.to_uppercase(), "zz".to_string()]
                    .into_iter()
                    .flat_map(|t| {
                        vec![
                            DObj(vec![("f1".to_string(), DocVal::Str(t.clone())), ("f2".to_string(), DocVal::s("bx")), ("f3".to_string(), DocVal::s("xCx"))]),
                            DObj(vec![("f1".to_string(), DocVal::Str(t.clone())), ("f2".to_string(), DocVal::s("bx")), ("f3".to_string(), DocVal::s("xcx"))]),
                            DObj(vec![("f1".to_string(), DocVal::Str(t)), ("f2".to_string(), DocVal::s("qx"))]),
                        ]
                    })
                    .collect();
                out.push((mk(false), mk(true), docs));
            }
        }
    }
    // twins inside big or-groups: X and Y are sequences of k mappings each (one of them holds the
    // twin list), joined by `or` - the optimiser flattens them into one group of 2k entries
    for (members, full, part) in member_sets.iter().take(3) {
        for k in [1usize, 2, 7, 8, 9, 12, 20] {
            for at in [0, k / 2, k - 1] {
                let seq = |ci: bool, salt: &str| -> String {
                    let mut b = String::new();
                    for i in 0..k {
                        if i == at {
                            b.push_str("  - f1:\n");
                            for m in members {
                                b.push_str(&format!("    - '{}{m}'\n", if ci { "i" } else { "" }));
                            }
                        } else {
                            match i % 3 {
                                0 => b.push_str(&format!("  - f2: {salt}{i}\n")),
                                1 => b.push_str(&format!("  - f1: '{salt}{i}*'\n    f2: z\n")),
                                _ => b.push_str(&format!("  - f3: ['*{salt}{i}*', '{salt}x{i}']\n")),
                            }
                        }
                    }
                    b
                };
                let docs: Vec<DObj> = [full.to_string(), full.to_uppercase(), part.to_string(), part.to_uppercase(), "zz".to_string()]
                    .into_iter()
                    .map(|t| DObj(vec![("f1".to_string(), DocVal::Str(t)), ("f2".to_string(), DocVal::s("y"))]))
                    .collect();
                for cond in ["X or Y", "N or X or Y", "(X or N) or Y"] {
                    let mk = |first_ci: bool| {
                        format!(
                            "detection:\n  X:\n{}  Y:\n{}  N:\n    f1: nomatch\n  condition: {cond}\ntrue_positives: []\ntrue_negatives: []\n",
                            seq(first_ci, "u"),
                            seq(!first_ci, "v")
                        )
                    };
                    out.push((mk(false), mk(true), docs.clone()));
                }
            }
        }
    }
    // cast twins: a sequence of 4-6 single-key mappings on one field, some under str() and some
    // plain, whose needles are spelled like numbers / booleans; the field holds a number, a boolean
    // or the same as text. The pair is the sequence as written and rotated.
    for needles in [vec!["a", "5", "b", "c"], vec!["5", "a", "b", "c", "true"], vec!["x", "y", "z", "1*", "*5", "tr*"]] {
        for cast_mask in [0b0001u8, 0b0010, 0b0101, 0b1000, 0b1111, 0b0000, 0b100000] {
            let entries: Vec<String> = needles
                .iter()
                .enumerate()
                .map(|(i, n)| if cast_mask >> i & 1 == 1 { format!("  - str(f1): '{n}'\n") } else { format!("  - f1: '{n}'\n") })
                .collect();
            let docs: Vec<DObj> = vec![
                DocVal::Int(5), DocVal::UInt(5), DocVal::UInt(15), DocVal::s("5"), DocVal::Bool(true), DocVal::s("true"), DocVal::Float(5.0),
                DocVal::s("a"), DocVal::s("zz"), DocVal::Int(1),
            ]
            .into_iter()
            .map(|v| DObj(vec![("f1".to_string(), v)]))
            .chain(std::iter::once(DObj::default()))
            .collect();
            for rot in 1..entries.len() {
                let mk = |r: usize| {
                    let mut e = entries.clone();
                    e.rotate_left(r);
                    format!("detection:\n  A:\n{}  condition: A\ntrue_positives: []\ntrue_negatives: []\n", e.concat())
                };
                out.push((mk(0), mk(rot), docs.clone()));
            }
        }
    }
    out
}

/// Key-order twins: identifiers whose mappings hold the same entries in different orders (equal as
/// YAML mappings, different as rules: a mapping is the conjunction of its entries *in written
/// order*, which decides between false and missing). The blocks come in sizes from a handful to a
/// few hundred YAML nodes. Returns (rule text, documents).
pub fn order_twin_rules() -> Vec<(String, Vec<DObj>)> {
    let mut out = vec![];
    for n in [1usize, 3, 14, 15, 16, 29, 30, 31, 32, 60, 64, 100, 200] {
        let list = |stem: &str, indent: &str| -> String {
            let mut l = String::new();
            for i in 0..n {
                l.push_str(&format!("{indent}- '{stem}{i}'\n"));
            }
            l
        };
        // flat blocks, nested blocks, and blocks that are members of a sequence
        let flat = |first: &str, second: &str| format!("    {first}:\n{}    {second}:\n{}", list(first, "    "), list(second, "    "));
        let nested = |first: &str, second: &str| {
            format!("    o1:\n      {first}:\n{}      {second}:\n{}", list(first, "      "), list(second, "      "))
        };
        let seq = |first: &str, second: &str| {
            format!("  - f3: never\n  - {first}:\n{}    {second}:\n{}", list(first, "    "), list(second, "    "))
        };
        let shapes: Vec<(String, String, bool)> = vec![
            (flat("f1", "f2"), flat("f2", "f1"), false),
            (nested("x", "y"), nested("y", "x"), true),
            (seq("f1", "f2"), seq("f2", "f1"), false),
        ];
        for (a, b, inner) in shapes {
            for cond in ["not A", "not B", "not A or not B", "not B or not A", "not (A or B)", "A or B", "not A and not B", "not B and B"] {
                for swap in [false, true] {
                    let (x, y) = if swap { (&b, &a) } else { (&a, &b) };
                    let text = format!("detection:\n  A:\n{x}  B:\n{y}  condition: {cond}\ntrue_positives: []\ntrue_negatives: []\n");
                    let (k1, k2) = if inner { ("x", "y") } else { ("f1", "f2") };
                    let hit1 = DocVal::Str(format!("{k1}0"));
                    let hit2 = DocVal::Str(format!("{k2}{}", n - 1));
                    let mut docs = vec![];
                    for (v1, v2) in [
                        (None, Some(DocVal::s("zz"))),
                        (Some(DocVal::s("zz")), None),
                        (Some(hit1.clone()), Some(hit2.clone())),
                        (Some(hit1.clone()), None),
                        (None, Some(hit2.clone())),
                        (Some(DocVal::s("zz")), Some(hit2.clone())),
                        (Some(hit1.clone()), Some(DocVal::s("zz"))),
                        (None, None),
                    ] {
                        let mut o = DObj::default();
                        if let Some(v) = v1 {
                            o.set(k1, v);
                        }
                        if let Some(v) = v2 {
                            o.set(k2, v);
                        }
                        docs.push(if inner { DObj(vec![("o1".to_string(), DocVal::Obj(o))]) } else { o });
                    }
                    out.push((text, docs));
                }
            }
        }
    }
    out
}

/// The fixed same-field documents plus, for every list in the rule, values built from all of its
/// needles at once (so that `all(..)` / `of(.., n)` over the list can be true), as written and with
/// the case swapped.
pub fn same_field_docs_for(rule: &RuleSpec, field: &str) -> Vec<DObj> {
    let mut out = same_field_docs(field);
    let mut add = |t: String| {
        let swapped: String = t
            .chars()
            .map(|c| if c.is_ascii_lowercase() { c.to_ascii_uppercase() } else { c.to_ascii_lowercase() })
            .collect();
        for v in [t, swapped] {
            out.push(DObj(vec![(field.to_string(), DocVal::Str(v))]));
        }
    };
    for (_, body) in &rule.idents {
        for block in body.blocks() {
            for e in &block.0 {
                if let ValSpec::List(ms) = &e.val {
                    let mut prefix = None;
                    let mut suffix = None;
                    let mut middle: Vec<String> = vec![];
                    for m in ms {
                        if let ValSpec::Str(t) = m {
                            let t = t.strip_prefix('i').filter(|r| !r.is_empty()).unwrap_or(t);
                            let core = t.trim_start_matches('?').trim_matches('*').to_string();
                            if t.ends_with('*') && !t.starts_with('*') {
                                prefix.get_or_insert(core);
                            } else if t.starts_with('*') && !t.ends_with('*') {
                                suffix.get_or_insert(core);
                            } else {
                                middle.push(core);
                            }
                        }
                    }
                    let text = format!("{}{}{}", prefix.unwrap_or_default(), middle.join(" "), suffix.unwrap_or_default());
                    if !text.is_empty() {
                        add(text);
                    }
                }
            }
        }
    }
    out
}

/// Wide or-groups: many entries on one field (around the optimiser's 256-entry matrix guard) or
/// many distinct fields (matrix column keys beyond the ASCII range), as a sequence identifier.
pub fn rule_wide() -> BoxedStrategy<RuleSpec> {
    rule_wide_sized(vec![100usize, 127, 128, 129, 140, 200, 254, 255, 256, 257, 258, 300, 300, 320, 380])
}

/// Sizes just above 128 and 256 are where a column key needs a second byte / no longer fits one.
pub fn rule_wide_sized(sizes: Vec<usize>) -> BoxedStrategy<RuleSpec> {
    rule_wide_with(sizes, vec![0u8, 1, 1, 1, 2, 3])
}

pub fn rule_wide_with(sizes: Vec<usize>, kinds: Vec<u8>) -> BoxedStrategy<RuleSpec> {
    (
        prop::sample::select(sizes),
        prop::sample::select(kinds),
        any::<bool>(),
        any::<u8>(),
    )
        .prop_map(|(n, kind, negate, salt)| {
            let mut blocks = vec![];
            for i in 0..n {
                let b = match kind {
                    // one field, numeric comparisons (never merged by shake): count == n
                    0 => Block(vec![Entry { key: KeySpec::plain("n1"), val: ValSpec::Int(i as i64) }]),
                    // n distinct fields, each used twice, so that there are n matrix columns
                    1 => Block(vec![
                        Entry { key: KeySpec::plain(&format!("w{i}")), val: ValSpec::Int((i % 7) as i64) },
                        Entry { key: KeySpec::plain(&format!("w{}", (i + 1) % n)), val: ValSpec::Str("a".into()) },
                    ]),
                    // one field in every mapping (n entries), a second one only in every ninth, so
                    // that the two fall on different sides of the optimiser's 256-entry guard
                    3 => {
                        let mut es = vec![Entry { key: KeySpec::plain("n1"), val: ValSpec::Int(i as i64) }];
                        if i % 9 == 0 {
                            es.push(Entry { key: KeySpec::plain("f1"), val: ValSpec::Str(format!("a{}", i % 4)) });
                        }
                        Block(es)
                    }
                    // conjunctions over two shared fields
                    _ => Block(vec![
                        Entry { key: KeySpec::plain("n1"), val: ValSpec::Int((i / 2) as i64) },
                        Entry { key: KeySpec::plain("f1"), val: ValSpec::Str(format!("{}{}", ["a", "b", "*a*", "ab"][i % 4], i % 3)) },
                    ]),
                };
                blocks.push(b);
            }
            let _ = salt;
            let cond = if negate {
                CondSpec::Not(Box::new(CondSpec::Ident("A".into())))
            } else {
                CondSpec::Ident("A".into())
            };
            RuleSpec { idents: vec![("A".to_string(), Body::Seq(blocks))], cond }
        })
        .boxed()
}

/// Documents for wide rules: the leaf-recipe mechanism picks among hundreds of leaves, so a few
/// direct hits are added.
pub fn wide_docs(rule: &RuleSpec, picks: &[u16]) -> Vec<DObj> {
    let leaves = collect_leaves(rule);
    let mut out = vec![DObj::default()];
    for p in picks {
        if leaves.is_empty() {
            break;
        }
        // uniform over the leaves: column order is not leaf order, so no region is privileged
        let i = (*p as usize * leaves.len()) >> 16;
        let mut d = DObj::default();
        // neighbours first, the picked leaf last, so that a shared field ends up satisfying the
        // picked predicate; together with a neighbour a two-entry block can match
        if i > 0 {
            place(&mut d, &leaves[i - 1], Some(value_for(&leaves[i - 1], true, 0)), false);
        }
        if i + 1 < leaves.len() {
            place(&mut d, &leaves[i + 1], Some(value_for(&leaves[i + 1], true, 0)), false);
        }
        place(&mut d, &leaves[i], Some(value_for(&leaves[i], true, (*p % 3) as u8)), false);
        out.push(d);
    }
    // dense documents: many of the rule's fields at once (a value cached for one column can then be
    // mistaken for another's)
    for (k, p) in picks.iter().take(3).enumerate() {
        let mut d = DObj::default();
        for (i, leaf) in leaves.iter().enumerate() {
            let h = mix(*p as u64, i as u64);
            if h % (k as u64 + 2) == 0 {
                continue;
            }
            place(&mut d, leaf, Some(value_for(leaf, h % 5 != 0, (h >> 8) as u8 % 3)), false);
        }
        out.push(d);
    }
    out
}

// ---------------------------------------------------------------------------------------------
// Documents
// ---------------------------------------------------------------------------------------------

pub fn hay() -> BoxedStrategy<String> {
    prop_oneof![
        5 => "[abAB]{0,4}",
        3 => "[abcAB1 .]{0,5}",
        2 => prop::sample::select(vec![
            "a", "ab", "abc", "cab", "acb", "xa", "A", "AB", "a12", "true", "false", "1", "5", "1.5", "-1", "",
            "bab", "a.", "é", "É", "aé", "c\nab", "ab\nc", "a\n", "\na", "\"a'", "'a\"", "\"ab'", "a'",
        ])
        .prop_map(|s| s.to_string()),
        // long haystacks: a needle far from both ends, repeated needles, > 255 bytes
        1 => ("[abAB]{0,3}", "[abAB]{0,3}", 1usize..6).prop_map(|(pre, needle, reps)| {
            format!("{pre}{}{}{}", "c".repeat(120), needle.repeat(reps), "c".repeat(150))
        }),
    ]
    .boxed()
}

pub fn doc_scalar() -> BoxedStrategy<DocVal> {
    prop_oneof![
        8 => hay().prop_map(DocVal::Str),
        3 => prop::sample::select(vec![-2i64, -1, 0, 1, 2, 5, 6, 10, 11, i64::MAX, i64::MIN]).prop_map(DocVal::Int),
        2 => prop::sample::select(vec![0u64, 1, 2, 5, 10, i64::MAX as u64, (i64::MAX as u64) + 1, u64::MAX]).prop_map(DocVal::UInt),
        2 => prop::sample::select(vec![0.5f64, 1.0, 1.5, 2.0, -2.5, 1000.25, 2.5, 1e300, f64::NAN, f64::INFINITY, -0.0]).prop_map(DocVal::Float),
        1 => any::<bool>().prop_map(DocVal::Bool),
        1 => Just(DocVal::Null),
    ]
    .boxed()
}

pub fn doc_value(depth: u32) -> BoxedStrategy<DocVal> {
    if depth == 0 {
        return prop_oneof![
            6 => doc_scalar(),
            1 => prop::collection::vec(doc_scalar(), 0..=3).prop_map(|v| DocVal::Arr(DArr(v))),
        ]
        .boxed();
    }
    prop_oneof![
        8 => doc_scalar(),
        2 => prop::collection::vec(doc_scalar(), 0..=3).prop_map(|v| DocVal::Arr(DArr(v))),
        2 => doc_object(depth - 1).prop_map(DocVal::Obj),
        1 => prop::collection::vec(doc_object(depth - 1).prop_map(DocVal::Obj), 0..=3)
            .prop_map(|v| DocVal::Arr(DArr(v))),
        1 => prop::collection::vec(doc_value(depth - 1), 0..=3).prop_map(|v| DocVal::Arr(DArr(v))),
    ]
    .boxed()
}

const INNER_KEYS: &[&str] = &["x", "y", "n", "p", "q", "list"];

pub fn doc_object(depth: u32) -> BoxedStrategy<DObj> {
    prop::collection::vec((idx(), doc_value(depth)), 0..=4)
        .prop_map(|kvs| {
            let mut o = DObj::default();
            for (k, v) in kvs {
                o.set(pick(INNER_KEYS, k), v);
            }
            o
        })
        .boxed()
}

const BASE_KEYS: &[&str] =
    &["f1", "f2", "f3", "n1", "n2", "b1", "o1", "arr", "objs", "#h", "two words", "extra1", "extra2"];

#[derive(Clone, Debug)]
pub struct DocRecipe {
    pub base: Vec<(u16, DocVal)>,
    /// (leaf index, action, variant)
    pub edits: Vec<(u16, u8, u8)>,
}

pub fn doc_recipe() -> BoxedStrategy<DocRecipe> {
    (
        prop::collection::vec((idx(), doc_value(2)), 0..=7),
        prop::collection::vec((idx(), 0u8..9, any::<u8>()), 0..=6),
    )
        .prop_map(|(base, edits)| DocRecipe { base, edits })
        .boxed()
}

/// Interpret a recipe against a rule (no rejection: every recipe yields a document).
pub fn build_doc(rule: &RuleSpec, r: &DocRecipe) -> DObj {
    let leaves = collect_leaves(rule);
    build_doc_with_leaves(&leaves, r)
}

pub fn build_doc_with_leaves(leaves: &[Leaf], r: &DocRecipe) -> DObj {
    let mut doc = DObj::default();
    for (k, v) in &r.base {
        let key = pick(BASE_KEYS, *k);
        // keep the shapes the rule vocabulary expects most of the time
        let v = match (key, v) {
            ("o1", DocVal::Obj(_)) | ("objs", DocVal::Arr(_)) | ("arr", DocVal::Arr(_)) => v.clone(),
            ("o1", other) if !matches!(other, DocVal::Str(_)) => {
                DocVal::Obj(DObj(vec![("x".into(), other.clone())]))
            }
            ("objs", other) => DocVal::Arr(DArr(vec![
                DocVal::Obj(DObj(vec![("x".into(), other.clone())])),
                other.clone(),
            ])),
            ("arr", other) => DocVal::Arr(DArr(vec![other.clone()])),
            _ => v.clone(),
        };
        doc.set(key, v);
    }
    if !leaves.is_empty() {
        for (li, action, variant) in &r.edits {
            let leaf = &leaves[(*li as usize * leaves.len()) >> 16];
            let as_array = variant & 0x10 != 0;
            match action {
                0..=3 => place(&mut doc, leaf, Some(value_for(leaf, true, *variant)), as_array),
                4 | 5 => place(&mut doc, leaf, Some(value_for(leaf, false, *variant)), as_array),
                6 => place(&mut doc, leaf, None, as_array),
                8 => {
                    // an array whose elements satisfy the different predicates written on this
                    // field (the members of a list, or several entries on one field)
                    let vals: Vec<DocVal> = leaves
                        .iter()
                        .filter(|l| l.prefix == leaf.prefix && l.field == leaf.field)
                        .enumerate()
                        .filter(|(i, _)| (variant >> (i % 4)) & 1 == 0 || variant % 3 == 0)
                        .map(|(i, l)| value_for(l, true, (i as u8) * 2))
                        .filter(|v| !matches!(v, DocVal::Arr(_) | DocVal::Obj(_)))
                        .collect();
                    place(&mut doc, leaf, Some(DocVal::Arr(DArr(vals))), as_array)
                }
                _ => {
                    // wrong kind
                    let wrong = match variant % 5 {
                        0 => DocVal::Int(5),
                        1 => DocVal::Null,
                        2 => DocVal::Bool(true),
                        3 => DocVal::arr(vec![]),
                        _ => DocVal::obj(vec![("x", DocVal::s("a"))]),
                    };
                    place(&mut doc, leaf, Some(wrong), as_array)
                }
            }
        }
    }
    doc
}

// ---------------------------------------------------------------------------------------------
// Driver
// ---------------------------------------------------------------------------------------------

fn rng_for(seed: u64) -> TestRng {
    let mut bytes = [0u8; 32];
    for i in 0..4 {
        bytes[i * 8..(i + 1) * 8].copy_from_slice(&mix(seed, i as u64).to_le_bytes());
    }
    TestRng::from_seed(RngAlgorithm::ChaCha, &bytes)
}

/// Run `cases` generated values through `judge` on all cores. `expand` turns a generated value into
/// the concrete cases to judge. On a violation the value is shrunk by proptest and the minimal
/// failing cases are recorded as violations.
pub fn drive<V, S>(
    report: &mut Report,
    stream: u64,
    cases: u32,
    strategy: impl Fn() -> S + Sync,
    expand: impl Fn(&V) -> Vec<Case> + Sync,
    judge: impl Fn(&Case) -> Outcome + Sync,
    label: impl Fn(&V, &mut Report) + Sync,
) where
    V: std::fmt::Debug + Clone,
    S: Strategy<Value = V>,
{
    let seed = mix(report.seed, stream);
    let subs: Vec<Report> = par_run(|w, n| {
        let my_cases = cases / n as u32 + if (w as u32) < cases % n as u32 { 1 } else { 0 };
        let mut sub = report.sub();
        if my_cases == 0 {
            return sub;
        }
        let config = Config {
            cases: my_cases,
            failure_persistence: None,
            max_shrink_iters: 4000,
            max_global_rejects: 1_000_000,
            max_local_rejects: 1_000_000,
            ..Config::default()
        };
        let mut runner = TestRunner::new_with_rng(config, rng_for(mix(seed, w as u64)));
        let cell = RefCell::new((&mut sub, false));
        let result = runner.run(&strategy(), |v| {
            let cs = expand(&v);
            let mut guard = cell.borrow_mut();
            let (sub, failed) = &mut *guard;
            let mut fail: Option<String> = None;
            for c in &cs {
                let out = judge(c);
                if let Outcome::Violation(m) = &out {
                    if fail.is_none() {
                        fail = Some(m.clone());
                    }
                    continue;
                }
                if !*failed {
                    sub.record(c, out);
                }
            }
            if !*failed && fail.is_none() {
                label(&v, sub);
            }
            match fail {
                Some(m) => {
                    *failed = true;
                    Err(TestCaseError::fail(m))
                }
                None => Ok(()),
            }
        });
        drop(cell);
        match result {
            Ok(()) => {}
            Err(TestError::Fail(_, v)) => {
                for c in expand(&v) {
                    if let Outcome::Violation(_) = judge(&c) {
                        // proptest shrank the generated value; now drop the documents and fields
                        // the failure does not need
                        let (c, m) = crate::common::minimise_case(&c, &judge);
                        sub.violations.push(Violation { case: c, message: m });
                        break;
                    }
                }
            }
            Err(TestError::Abort(r)) => {
                sub.notes.push(format!("proptest aborted: {r}"));
            }
        }
        sub
    });
    for s in subs {
        report.merge(s);
    }
}

/// Generate `n` values deterministically without running a test (used by checks that need the
/// values themselves, e.g. to hand them to worker processes).
pub fn sample_values<V: std::fmt::Debug, S: Strategy<Value = V>>(seed: u64, n: usize, s: &S) -> Vec<V> {
    let config = Config { failure_persistence: None, ..Config::default() };
    let mut runner = TestRunner::new_with_rng(config, rng_for(seed));
    (0..n).map(|_| s.new_tree(&mut runner).expect("strategy").current()).collect()
}
