//! Generation-side AST of rules: built by the strategies in gen.rs, rendered to YAML text for the
//! engine and the reference alike, and transformed by the metamorphic checks.

use serde_yaml::Value as Y;

use crate::model::{DArr, DObj, DocVal};
use crate::reference::{self, NumConst, NumOp, Pat};

#[derive(Clone, Debug, PartialEq)]
pub enum KMod {
    None,
    All,
    Of(u64),
    Not,
    Int,
    Flt,
    Str,
}

#[derive(Clone, Debug, PartialEq)]
pub struct KeySpec {
    pub modifier: KMod,
    pub field: String,
}

impl KeySpec {
    pub fn plain(f: &str) -> KeySpec {
        KeySpec { modifier: KMod::None, field: f.to_string() }
    }
    pub fn text(&self) -> String {
        match &self.modifier {
            KMod::None => self.field.clone(),
            KMod::All => format!("all({})", self.field),
            KMod::Of(n) => format!("of({}, {})", self.field, n),
            KMod::Not => format!("not({})", self.field),
            KMod::Int => format!("int({})", self.field),
            KMod::Flt => format!("flt({})", self.field),
            KMod::Str => format!("str({})", self.field),
        }
    }
}

#[derive(Clone, Debug, PartialEq)]
pub enum ValSpec {
    /// raw pattern text
    Str(String),
    Int(i64),
    Float(f64),
    Bool(bool),
    Null,
    Block(Block),
    List(Vec<ValSpec>),
}

#[derive(Clone, Debug, PartialEq)]
pub struct Entry {
    pub key: KeySpec,
    pub val: ValSpec,
}

#[derive(Clone, Debug, PartialEq, Default)]
pub struct Block(pub Vec<Entry>);

#[derive(Clone, Debug, PartialEq)]
pub enum Body {
    Map(Block),
    Seq(Vec<Block>),
}

#[derive(Clone, Debug, PartialEq)]
pub enum OperandSpec {
    Cast(&'static str, String),
    Int(i64),
    Float(f64),
}

#[derive(Clone, Debug, PartialEq)]
pub enum CondSpec {
    Ident(String),
    And(Box<CondSpec>, Box<CondSpec>),
    Or(Box<CondSpec>, Box<CondSpec>),
    Not(Box<CondSpec>),
    Paren(Box<CondSpec>),
    All(String),
    Of(String, u64),
    Cmp(OperandSpec, &'static str, OperandSpec),
}

#[derive(Clone, Debug, PartialEq)]
pub struct RuleSpec {
    pub idents: Vec<(String, Body)>,
    pub cond: CondSpec,
}

// ---------------------------------------------------------------------------------------------
// Rendering
// ---------------------------------------------------------------------------------------------

impl ValSpec {
    pub fn to_yaml(&self) -> Y {
        match self {
            ValSpec::Str(s) => Y::String(s.clone()),
            ValSpec::Int(i) => Y::Number((*i).into()),
            ValSpec::Float(f) => Y::Number((*f).into()),
            ValSpec::Bool(b) => Y::Bool(*b),
            ValSpec::Null => Y::Null,
            ValSpec::Block(b) => b.to_yaml(),
            ValSpec::List(l) => Y::Sequence(l.iter().map(|v| v.to_yaml()).collect()),
        }
    }
}

impl Block {
    pub fn to_yaml(&self) -> Y {
        let mut m = serde_yaml::Mapping::new();
        for e in &self.0 {
            m.insert(Y::String(e.key.text()), e.val.to_yaml());
        }
        Y::Mapping(m)
    }
    /// Keys of a YAML mapping are unique: does this block (recursively) avoid duplicate key text?
    pub fn keys_unique(&self) -> bool {
        for (i, e) in self.0.iter().enumerate() {
            if self.0[..i].iter().any(|p| p.key.text() == e.key.text()) {
                return false;
            }
            if !val_keys_unique(&e.val) {
                return false;
            }
        }
        true
    }
}

fn val_keys_unique(v: &ValSpec) -> bool {
    match v {
        ValSpec::Block(b) => b.keys_unique(),
        ValSpec::List(l) => l.iter().all(val_keys_unique),
        _ => true,
    }
}

impl Body {
    pub fn to_yaml(&self) -> Y {
        match self {
            Body::Map(b) => b.to_yaml(),
            Body::Seq(bs) => Y::Sequence(bs.iter().map(|b| b.to_yaml()).collect()),
        }
    }
    pub fn blocks(&self) -> Vec<&Block> {
        match self {
            Body::Map(b) => vec![b],
            Body::Seq(bs) => bs.iter().collect(),
        }
    }
    pub fn blocks_mut(&mut self) -> Vec<&mut Block> {
        match self {
            Body::Map(b) => vec![b],
            Body::Seq(bs) => bs.iter_mut().collect(),
        }
    }
}

fn prec(c: &CondSpec) -> u8 {
    match c {
        CondSpec::And(_, _) => 1,
        CondSpec::Or(_, _) => 2,
        CondSpec::Cmp(_, _, _) => 3,
        CondSpec::Not(_) => 4,
        _ => 5,
    }
}

impl OperandSpec {
    pub fn text(&self) -> String {
        match self {
            OperandSpec::Cast(k, f) => format!("{k}({f})"),
            OperandSpec::Int(i) => i.to_string(),
            OperandSpec::Float(f) => {
                let s = format!("{:?}", f);
                if s.contains('e') || s.contains("inf") || s.contains("NaN") {
                    // the condition tokeniser has no exponent syntax
                    format!("{:.1}", f)
                } else {
                    s
                }
            }
        }
    }
}

impl CondSpec {
    pub fn text(&self) -> String {
        self.text_min(0)
    }
    fn text_min(&self, min: u8) -> String {
        let s = match self {
            CondSpec::Ident(n) => n.clone(),
            CondSpec::All(n) => format!("all({n})"),
            CondSpec::Of(n, k) => format!("of({n}, {k})"),
            CondSpec::Paren(x) => format!("({})", x.text_min(0)),
            CondSpec::Not(x) => format!("not {}", x.text_min(4)),
            CondSpec::And(l, r) => format!("{} and {}", l.text_min(1), r.text_min(2)),
            CondSpec::Or(l, r) => format!("{} or {}", l.text_min(2), r.text_min(3)),
            CondSpec::Cmp(a, op, b) => format!("{} {} {}", a.text(), op, b.text()),
        };
        if prec(self) < min {
            format!("({s})")
        } else {
            s
        }
    }
    pub fn has_negation(&self) -> bool {
        match self {
            CondSpec::Not(_) => true,
            CondSpec::Of(_, 0) => true,
            CondSpec::And(a, b) | CondSpec::Or(a, b) => a.has_negation() || b.has_negation(),
            CondSpec::Paren(x) => x.has_negation(),
            _ => false,
        }
    }
    pub fn has_quantifier(&self) -> bool {
        match self {
            CondSpec::All(_) | CondSpec::Of(_, _) => true,
            CondSpec::And(a, b) | CondSpec::Or(a, b) => a.has_quantifier() || b.has_quantifier(),
            CondSpec::Paren(x) | CondSpec::Not(x) => x.has_quantifier(),
            _ => false,
        }
    }
}

impl RuleSpec {
    pub fn detection_yaml(&self) -> Y {
        let mut m = serde_yaml::Mapping::new();
        for (n, b) in &self.idents {
            m.insert(Y::String(n.clone()), b.to_yaml());
        }
        m.insert(Y::String("condition".into()), Y::String(self.cond.text()));
        Y::Mapping(m)
    }
    pub fn text(&self) -> String {
        crate::engine::rule_text(&self.detection_yaml(), &[], &[])
    }
    pub fn text_with_condition(&self, cond: &str) -> String {
        let mut m = serde_yaml::Mapping::new();
        for (n, b) in &self.idents {
            m.insert(Y::String(n.clone()), b.to_yaml());
        }
        m.insert(Y::String("condition".into()), Y::String(cond.to_string()));
        crate::engine::rule_text(&Y::Mapping(m), &[], &[])
    }
    /// Same rule with the condition negated: `not (C)`.
    pub fn negated_text(&self) -> String {
        self.text_with_condition(&format!("not ({})", self.cond.text()))
    }
    pub fn well_formed(&self) -> bool {
        let mut names: Vec<&String> = self.idents.iter().map(|(n, _)| n).collect();
        names.sort();
        names.dedup();
        names.len() == self.idents.len()
            && self.idents.iter().all(|(_, b)| b.blocks().iter().all(|bl| bl.keys_unique() && !bl.0.is_empty()))
    }
    pub fn has_negation(&self) -> bool {
        self.cond.has_negation()
            || self.idents.iter().any(|(_, b)| b.blocks().iter().any(|bl| block_has_negation(bl)))
    }
}

pub fn block_has_negation(b: &Block) -> bool {
    b.0.iter().any(|e| {
        matches!(e.key.modifier, KMod::Not | KMod::Of(0))
            || match &e.val {
                ValSpec::Block(x) => block_has_negation(x),
                ValSpec::List(l) => l.iter().any(|v| matches!(v, ValSpec::Block(x) if block_has_negation(x))),
                _ => false,
            }
    })
}

// ---------------------------------------------------------------------------------------------
// Leaves: every scalar predicate of a rule with the absolute path it addresses
// ---------------------------------------------------------------------------------------------

#[derive(Clone, Debug)]
pub struct Leaf {
    /// chain of nested-block fields leading to the entry (outermost first)
    pub prefix: Vec<String>,
    pub field: String,
    pub modifier: KMod,
    /// scalar value (never Block / List)
    pub val: ValSpec,
}

pub fn collect_leaves(rule: &RuleSpec) -> Vec<Leaf> {
    let mut out = vec![];
    for (_, b) in &rule.idents {
        for bl in b.blocks() {
            leaves_of_block(bl, &mut vec![], &mut out);
        }
    }
    collect_cond_leaves(&rule.cond, &mut out);
    out
}

fn collect_cond_leaves(c: &CondSpec, out: &mut Vec<Leaf>) {
    match c {
        CondSpec::And(a, b) | CondSpec::Or(a, b) => {
            collect_cond_leaves(a, out);
            collect_cond_leaves(b, out);
        }
        CondSpec::Not(x) | CondSpec::Paren(x) => collect_cond_leaves(x, out),
        CondSpec::Cmp(a, op, b) => {
            // describe `cast(f) op const` as a leaf so that documents can satisfy it
            let (cast, lit, op) = match (a, b) {
                (OperandSpec::Cast(k, f), lit) => ((k, f), lit.clone(), *op),
                (lit, OperandSpec::Cast(k, f)) => ((k, f), lit.clone(), flip(op)),
                _ => return,
            };
            let modifier = match *cast.0 {
                "int" => KMod::Int,
                "flt" => KMod::Flt,
                _ => KMod::Str,
            };
            let val = match lit {
                OperandSpec::Int(i) => ValSpec::Str(format!("{}{}", pat_op(op), i)),
                OperandSpec::Float(f) => ValSpec::Str(format!("{}{:?}", pat_op(op), f)),
                OperandSpec::Cast(_, f2) => {
                    // two-field comparison: make both fields addressable
                    out.push(Leaf { prefix: vec![], field: f2, modifier: modifier.clone(), val: ValSpec::Int(1) });
                    ValSpec::Int(1)
                }
            };
            out.push(Leaf { prefix: vec![], field: cast.1.clone(), modifier, val });
        }
        _ => {}
    }
}

fn flip(op: &str) -> &'static str {
    match op {
        ">" => "<",
        ">=" => "<=",
        "<" => ">",
        "<=" => ">=",
        _ => "==",
    }
}
fn pat_op(op: &str) -> &'static str {
    match op {
        "==" => "=",
        ">" => ">",
        ">=" => ">=",
        "<" => "<",
        _ => "<=",
    }
}

fn leaves_of_block(b: &Block, prefix: &mut Vec<String>, out: &mut Vec<Leaf>) {
    for e in &b.0 {
        leaves_of_val(&e.key, &e.val, prefix, out);
    }
}

fn leaves_of_val(key: &KeySpec, v: &ValSpec, prefix: &mut Vec<String>, out: &mut Vec<Leaf>) {
    match v {
        ValSpec::Block(inner) => {
            prefix.push(key.field.clone());
            leaves_of_block(inner, prefix, out);
            prefix.pop();
        }
        ValSpec::List(l) => {
            for m in l {
                leaves_of_val(key, m, prefix, out);
            }
        }
        scalar => out.push(Leaf {
            prefix: prefix.clone(),
            field: key.field.clone(),
            modifier: key.modifier.clone(),
            val: scalar.clone(),
        }),
    }
}

/// Known regexes of the generator vocabulary with a matching and a non-matching sample.
pub const REGEX_VOCAB: &[(&str, &str, &str)] = &[
    ("a", "xa", "xb"),
    ("^a", "ab", "ba"),
    ("b$", "ab", "ba"),
    ("a.b", "acb", "ab"),
    ("a|b", "b", "c"),
    ("[ab]+c", "abc", "c"),
    ("^ab$", "ab", "abc"),
    (".*ab", "cab", "ba"),
    ("ab.*", "abc", "ba"),
    (".*a.*", "bab", "bbb"),
    ("\\d+", "a12", "abc"),
    (".*?b", "ab", "ac"),
    ("a\\.*", "a.", "b"),
    ("^$", "", "a"),
    ("A", "A", "a"),
    ("^.*ab", "cab", "c\nab"),
    ("ab.*$", "abc", "ab\nc"),
    ("^.*a.*$", "bab", "b\nab\n"),
    ("ab", "xab", "ba"),
    ("^\\D+$", "ab", "a1"),
    ("\\S+", "a", " "),
    ("\\W", "a b", "ab"),
    ("[A-Z]", "aB", "ab"),
    (".a", "ba", "a"),
    ("^[@-\\]]+$", "AB", "ab"),
    ("[\\[-~]{2}", "ab", "AB"),
    (".ab", "cab", "ab"),
    ("a.", "ab", "a"),
];

/// A document value that should make the scalar predicate true / almost true.
/// variant selects among alternatives.
pub fn value_for(leaf: &Leaf, want_true: bool, variant: u8) -> DocVal {
    match &leaf.val {
        ValSpec::Null => {
            if want_true {
                DocVal::Null
            } else {
                DocVal::s("a")
            }
        }
        ValSpec::Bool(b) => match leaf.modifier {
            KMod::Int => DocVal::Int((*b == want_true) as i64),
            KMod::Str => DocVal::s(&(*b == want_true).to_string()),
            _ => DocVal::Bool(*b == want_true),
        },
        ValSpec::Int(i) => {
            let x = if want_true { *i } else { i.wrapping_add(1) };
            match (&leaf.modifier, variant % 3) {
                (KMod::Str, 0) => DocVal::s(&x.to_string()),
                (KMod::Int, 1) => DocVal::s(&x.to_string()),
                (_, 2) if x >= 0 => DocVal::UInt(x as u64),
                _ => DocVal::Int(x),
            }
        }
        ValSpec::Float(f) => {
            let x = if want_true { *f } else { *f + 1.0 };
            match (&leaf.modifier, variant % 2) {
                (KMod::Str, 0) | (KMod::Flt, 1) => DocVal::s(&x.to_string()),
                _ => DocVal::Float(x),
            }
        }
        ValSpec::Str(text) => {
            let p = match reference::parse_pattern(text, false) {
                Ok(p) => p,
                Err(_) => return DocVal::s(text),
            };
            let flipcase = |s: &str| -> String {
                if p.ci && variant % 2 == 1 {
                    s.chars()
                        .map(|c| if c.is_ascii_lowercase() { c.to_ascii_uppercase() } else { c.to_ascii_lowercase() })
                        .collect()
                } else {
                    s.to_string()
                }
            };
            let s: DocVal = match &p.pat {
                Pat::Any => DocVal::s(if want_true { "zz" } else { "" }),
                Pat::Exact(x) => DocVal::s(&if want_true { flipcase(x) } else { format!("{x}c") }),
                Pat::Prefix(x) => DocVal::s(&if want_true { format!("{}c", flipcase(x)) } else { format!("c{x}") }),
                Pat::Suffix(x) => DocVal::s(&if want_true { format!("c{}", flipcase(x)) } else { format!("{x}c") }),
                Pat::Contains(x) => {
                    DocVal::s(&if want_true { format!("c{}c", flipcase(x)) } else { "cc".to_string() })
                }
                Pat::Regex(r) => {
                    let src = r.as_str();
                    match REGEX_VOCAB.iter().find(|(re, _, _)| *re == src) {
                        Some((_, yes, no)) => DocVal::s(if want_true { yes } else { no }),
                        None => DocVal::s(src),
                    }
                }
                Pat::Num(op, c) => {
                    let delta: i64 = match (op, want_true) {
                        (NumOp::Eq, true) => 0,
                        (NumOp::Eq, false) => 1,
                        (NumOp::Gt, true) => 1,
                        (NumOp::Gt, false) => 0,
                        (NumOp::Ge, true) => (variant % 2) as i64,
                        (NumOp::Ge, false) => -1,
                        (NumOp::Lt, true) => -1,
                        (NumOp::Lt, false) => 0,
                        (NumOp::Le, true) => -((variant % 2) as i64),
                        (NumOp::Le, false) => 1,
                    };
                    match c {
                        NumConst::I(i) => {
                            let x = i.saturating_add(delta);
                            match (&leaf.modifier, variant % 3) {
                                (KMod::Int, 1) => DocVal::s(&x.to_string()),
                                (_, 2) if x >= 0 => DocVal::UInt(x as u64),
                                _ => DocVal::Int(x),
                            }
                        }
                        NumConst::F(f) => {
                            let x = f + delta as f64;
                            match (&leaf.modifier, variant % 2) {
                                (KMod::Flt, 1) => DocVal::s(&x.to_string()),
                                _ => DocVal::Float(x),
                            }
                        }
                    }
                }
            };
            // under str() a number or boolean whose text matches is as good as the string
            if leaf.modifier == KMod::Str && variant % 3 == 0 {
                if let DocVal::Str(t) = &s {
                    if let Ok(i) = t.parse::<i64>() {
                        return if i >= 0 && variant % 2 == 0 { DocVal::UInt(i as u64) } else { DocVal::Int(i) };
                    }
                    if t == "true" || t == "false" {
                        return DocVal::Bool(t == "true");
                    }
                }
            }
            // string predicates also look inside arrays
            match (&s, variant % 5) {
                (DocVal::Str(_), 4) => DocVal::arr(vec![DocVal::s("q"), s]),
                _ => s,
            }
        }
        ValSpec::Block(_) | ValSpec::List(_) => DocVal::Null,
    }
}

/// Place `v` at the absolute path of a leaf inside `doc`, creating intermediate objects and
/// arrays. Nested-block prefixes may be realised as an array of objects (`as_array`).
pub fn place(doc: &mut DObj, leaf: &Leaf, v: Option<DocVal>, as_array: bool) {
    fn descend<'a>(obj: &'a mut DObj, steps: &[String], as_array: bool) -> Option<&'a mut DObj> {
        let mut cur = obj;
        for (depth, step) in steps.iter().enumerate() {
            // a step may itself be a dotted / indexed path; only plain names are realised here
            let segs: Vec<&str> = step.split('.').collect();
            for (si, seg) in segs.iter().enumerate() {
                let (name, idx) = match crate::model::parse_segment(seg) {
                    Ok(x) => x,
                    Err(()) => return None,
                };
                let last_of_step = si + 1 == segs.len();
                let want_arr = idx.is_some() || (last_of_step && as_array && depth == 0);
                if cur.get_val(name).is_none() {
                    if want_arr {
                        let n = idx.unwrap_or(0) + 1;
                        cur.set(name, DocVal::Arr(DArr(vec![DocVal::Obj(DObj::default()); n])));
                    } else {
                        cur.set(name, DocVal::Obj(DObj::default()));
                    }
                }
                let slot = cur.0.iter_mut().find(|(k, _)| k == name).map(|(_, v)| v)?;
                // coerce the slot into the shape this step needs
                let keep = match (&*slot, idx) {
                    (DocVal::Obj(_), None) => true,
                    (DocVal::Arr(_), _) => true,
                    _ => false,
                };
                if !keep {
                    *slot = DocVal::Obj(DObj::default());
                }
                cur = match slot {
                    DocVal::Obj(o) => o,
                    DocVal::Arr(a) => {
                        let i = idx.unwrap_or(0);
                        while a.0.len() <= i {
                            a.0.push(DocVal::Obj(DObj::default()));
                        }
                        if !matches!(a.0[i], DocVal::Obj(_)) {
                            a.0[i] = DocVal::Obj(DObj::default());
                        }
                        match &mut a.0[i] {
                            DocVal::Obj(o) => o,
                            _ => unreachable!(),
                        }
                    }
                    _ => unreachable!(),
                };
            }
        }
        Some(cur)
    }
    let Some(target) = descend(doc, &leaf.prefix, as_array) else { return };
    // the leaf field itself may be dotted / indexed
    let segs: Vec<&str> = leaf.field.split('.').collect();
    let (last, init) = segs.split_last().unwrap();
    let init: Vec<String> = init.iter().map(|s| s.to_string()).collect();
    let Some(holder) = descend(target, &init, false) else { return };
    let (name, idx) = match crate::model::parse_segment(last) {
        Ok(x) => x,
        Err(()) => return,
    };
    match (v, idx) {
        (None, None) => holder.remove(name),
        (None, Some(_)) => holder.remove(name),
        (Some(v), None) => holder.set(name, v),
        (Some(v), Some(i)) => {
            let mut items = match holder.get_val(name) {
                Some(DocVal::Arr(a)) => a.0.clone(),
                _ => vec![],
            };
            while items.len() <= i {
                items.push(DocVal::s("pad"));
            }
            items[i] = v;
            holder.set(name, DocVal::Arr(DArr(items)));
        }
    }
}
