//! C05 Condition grammar: fixed precedence, associativity and parentheses.

use proptest::prelude::*;
use tau_engine::core::parser::{BoolSym, Expression, Match, ModSym};

use crate::checks::c02;
use crate::common::*;
use crate::engine::{self, Load};
use crate::gen;
use crate::model::{DObj, DocVal};
use crate::reference::{self, BinOp, CastKind, NumOp, PTree};

pub const ID: &str = "C05";

fn idents_yaml(names: &[&str; 3]) -> String {
    format!(
        "  {}:\n    fa: v\n  {}:\n    fb: v\n  {}:\n    fc: v\n",
        names[0], names[1], names[2]
    )
}

fn rule_text(names: &[&str; 3], cond: &str) -> String {
    format!("detection:\n{}  condition: {}\ntrue_positives: []\ntrue_negatives: []\n", idents_yaml(names), serde_yaml::to_string(&serde_yaml::Value::String(cond.to_string())).unwrap().trim_end())
}

/// 27 assignments of T/F/M to A, B, C, each with two settings of the numeric fields used by cast
/// atoms.
pub fn assignment_docs() -> Vec<DObj> {
    let mut out = vec![];
    for extra in 0..3 {
        for a in 0..3 {
            for b in 0..3 {
                for c in 0..3 {
                    let mut d = DObj::default();
                    for (f, v) in [("fa", a), ("fb", b), ("fc", c)] {
                        match v {
                            0 => d.set(f, DocVal::s("v")),
                            1 => d.set(f, DocVal::s("w")),
                            _ => {}
                        }
                    }
                    if extra == 1 {
                        d.set("n", DocVal::Int(2));
                        d.set("n1", DocVal::Int(1));
                        d.set("n2", DocVal::UInt(2));
                        d.set("f1", DocVal::s("5"));
                        d.set("s", DocVal::s("x"));
                        d.set("t", DocVal::s("x"));
                        d.set("b1", DocVal::Bool(true));
                    }
                    if extra == 2 {
                        // the other way round, so that every comparison atom is true in one setting
                        d.set("n", DocVal::Int(0));
                        d.set("n1", DocVal::Int(3));
                        d.set("n2", DocVal::UInt(2));
                        d.set("f1", DocVal::s("1"));
                        d.set("s", DocVal::s("x"));
                        d.set("t", DocVal::s("y"));
                        d.set("b1", DocVal::Bool(false));
                    }
                    out.push(d);
                }
            }
        }
    }
    out
}

fn to_tree(e: &Expression) -> Option<PTree> {
    Some(match e {
        Expression::Identifier(n) => PTree::Ident(n.clone()),
        Expression::Integer(i) => PTree::Int(*i),
        Expression::Float(f) => PTree::Float(*f),
        Expression::Cast(f, m) => match m {
            ModSym::Int => PTree::Cast(CastKind::Int, f.clone()),
            ModSym::Flt => PTree::Cast(CastKind::Flt, f.clone()),
            ModSym::Str => PTree::Cast(CastKind::Str, f.clone()),
            ModSym::Not => PTree::NotCast(f.clone()),
            #[allow(unreachable_patterns)]
            _ => return None,
        },
        Expression::Negate(x) => PTree::Not(Box::new(to_tree(x)?)),
        Expression::Match(Match::All, x) => match &**x {
            Expression::Identifier(n) => PTree::All(n.clone()),
            _ => return None,
        },
        Expression::Match(Match::Of(c), x) => match &**x {
            Expression::Identifier(n) => PTree::Of(n.clone(), *c),
            _ => return None,
        },
        // an n-ary group is read as the left-associated chain it stands for
        Expression::BooleanGroup(op, items) if items.len() >= 2 => {
            let op = match op {
                BoolSym::And => BinOp::And,
                BoolSym::Or => BinOp::Or,
                _ => return None,
            };
            let mut it = items.iter();
            let mut acc = to_tree(it.next()?)?;
            for x in it {
                acc = PTree::Bin(Box::new(acc), op, Box::new(to_tree(x)?));
            }
            acc
        }
        Expression::BooleanExpression(l, op, r) => {
            let op = match op {
                BoolSym::And => BinOp::And,
                BoolSym::Or => BinOp::Or,
                BoolSym::Equal => BinOp::Cmp(NumOp::Eq),
                BoolSym::GreaterThan => BinOp::Cmp(NumOp::Gt),
                BoolSym::GreaterThanOrEqual => BinOp::Cmp(NumOp::Ge),
                BoolSym::LessThan => BinOp::Cmp(NumOp::Lt),
                BoolSym::LessThanOrEqual => BinOp::Cmp(NumOp::Le),
                #[allow(unreachable_patterns)]
                _ => return None,
            };
            PTree::Bin(Box::new(to_tree(l)?), op, Box::new(to_tree(r)?))
        }
        _ => return None,
    })
}

fn show_tree(t: &PTree) -> String {
    match t {
        PTree::Ident(n) => n.clone(),
        PTree::Int(i) => i.to_string(),
        PTree::Float(f) => format!("{f:?}"),
        PTree::Cast(k, f) => format!(
            "{}({f})",
            match k {
                CastKind::Int => "int",
                CastKind::Flt => "flt",
                CastKind::Str => "str",
            }
        ),
        PTree::NotCast(f) => format!("not({f})"),
        PTree::All(n) => format!("all({n})"),
        PTree::Of(n, c) => format!("of({n}, {c})"),
        PTree::Not(x) => format!("not ({})", show_tree(x)),
        PTree::Bin(l, op, r) => {
            let o = match op {
                BinOp::And => "and",
                BinOp::Or => "or",
                BinOp::Cmp(NumOp::Eq) => "==",
                BinOp::Cmp(NumOp::Gt) => ">",
                BinOp::Cmp(NumOp::Ge) => ">=",
                BinOp::Cmp(NumOp::Lt) => "<",
                BinOp::Cmp(NumOp::Le) => "<=",
            };
            match op {
                BinOp::Cmp(_) => format!("{} {o} {}", show_tree(l), show_tree(r)),
                _ => format!("({}) {o} ({})", show_tree(l), show_tree(r)),
            }
        }
    }
}

fn verdicts(text: &str, docs: &[DObj]) -> Result<Vec<bool>, String> {
    let rule = match engine::load_text(text) {
        Load::Ok(r) => r,
        Load::Rejected(e) => return Err(format!("rejected: {e}")),
        Load::Panicked(p) => return Err(format!("panicked: {p}")),
    };
    let mut out = vec![];
    for d in docs {
        out.push(engine::matches(&rule, d).map_err(|p| format!("matches panicked: {p}"))?);
    }
    Ok(out)
}

const PLAIN: [&str; 3] = ["A", "B", "C"];
const RENAMES: [[&str; 3]; 5] = [
    ["android", "order", "nothing"],
    ["allow", "offline", "integer"],
    ["stringent", "notes", "flt1"],
    // keyword letters followed by an identifier character that is not a letter
    ["or.else", "and[0]", "not#1"],
    ["and.x", "or#", "not_"],
];

fn rename(cond: &str, to: &[&str; 3]) -> String {
    // identifiers A, B, C only occur as whole words in the generated conditions
    let mut out = String::new();
    let cs: Vec<char> = cond.chars().collect();
    let mut i = 0;
    while i < cs.len() {
        let c = cs[i];
        let prev_ok = i == 0 || !(cs[i - 1].is_alphanumeric() || cs[i - 1] == '_');
        let next_ok = i + 1 >= cs.len() || !(cs[i + 1].is_alphanumeric() || cs[i + 1] == '_');
        if prev_ok && next_ok && (c == 'A' || c == 'B' || c == 'C') {
            out.push_str(to[(c as u8 - b'A') as usize]);
        } else {
            out.push(c);
        }
        i += 1;
    }
    out
}

/// texts[0] = condition over identifiers A, B, C (and cast atoms).
pub fn judge(case: &Case) -> Outcome {
    if case.kind == "c05.reference" {
        // whole rules (several predicates on one field, case twins) whose condition is a chain or
        // a random tree: reference semantics, and the optimised rule against the rule as loaded
        return match c02::eval_case(case) {
            Ok(r) => Outcome::Pass {
                nontrivial: if r.iter().any(|x| x.0 == crate::engine::Tri::T) && r.iter().any(|x| x.0 != crate::engine::Tri::T) {
                    Some(hash_str(&case.rules[0]))
                } else {
                    None
                },
                evaluations: 6 * case.docs.len() as u64,
                labels: vec!["whole_rule_reference"],
            },
            Err(o) => o,
        };
    }
    let cond = &case.texts[0];
    // what a condition means must not depend on what the process tried to load before: a load
    // that fails part-way through its condition precedes every case
    for broken in ["A and int(n1) > - 1", "int(n1) == -", "A and flt(n1) < -.", "of(A, -"] {
        let _ = engine::load_text(&rule_text(&PLAIN, broken));
    }
    let docs = if case.docs.is_empty() { assignment_docs() } else { case.docs.clone() };
    let tree = match reference::parse_condition_tree(cond) {
        Ok(t) => t,
        Err(_) => return Outcome::Skip("reference cannot parse the condition".into()),
    };
    let names: Vec<String> = PLAIN.iter().map(|s| s.to_string()).collect();
    if reference::validate_tree(&tree, &names).is_err() {
        return Outcome::Skip("condition is not well-formed".into());
    }
    let text = rule_text(&PLAIN, cond);
    let rule = match engine::load_text(&text) {
        Load::Ok(r) => r,
        Load::Rejected(e) => {
            return Outcome::Violation(format!("well-formed condition {cond:?} rejected by the loader: {e}"))
        }
        Load::Panicked(p) => return Outcome::Violation(format!("loader panicked: {p}")),
    };
    // (1) structure
    match to_tree(&rule.detection.expression) {
        Some(t) => {
            if t != tree {
                return Outcome::Violation(format!(
                    "condition {cond:?} is parsed as {} but the grammar says {}",
                    show_tree(&t),
                    show_tree(&tree)
                ));
            }
        }
        None => {
            return Outcome::Violation(format!(
                "condition {cond:?} parses to an expression outside the condition language: {}",
                rule.detection.expression
            ))
        }
    }
    // (2) semantics against the reference, three-valued
    let mut c2 = Case::new("c02.verdict");
    c2.rules = vec![text.clone(), rule_text(&PLAIN, &format!("not ({cond})"))];
    c2.docs = docs.clone();
    let results = match c02::eval_case_impl(&c2, c02::OptimisedCheck::Tight) {
        Ok(r) => r,
        Err(Outcome::Skip(s)) => return Outcome::Skip(s),
        Err(o) => return o,
    };
    let base: Vec<bool> = results.iter().map(|(t, _, _)| *t == crate::engine::Tri::T).collect();
    // (3) metamorphic variants
    let mut variants: Vec<(String, String)> = vec![
        ("fully parenthesised".into(), show_tree(&tree)),
        ("double spaces".into(), cond.replace(' ', "  ")),
        ("padded".into(), format!("  {}  ", cond.replace('(', "( ").replace(')', " )").replace("all( ", "all(").replace("of( ", "of(").replace("int( ", "int(").replace("flt( ", "flt(").replace("str( ", "str("))),
        ("outer parentheses".into(), format!("(({cond}))")),
    ];
    // parenthesise each maximal operand of the top-level operator
    if let PTree::Bin(l, op, r) = &tree {
        if !matches!(op, BinOp::Cmp(_)) {
            let o = if *op == BinOp::And { "and" } else { "or" };
            let atomic = |t: &PTree| -> String {
                match t {
                    PTree::Bin(_, BinOp::And, _) | PTree::Bin(_, BinOp::Or, _) => format!("({})", show_tree(t)),
                    _ => show_tree(t),
                }
            };
            variants.push(("left operand parenthesised".into(), format!("(({})) {o} {}", show_tree(l), atomic(r))));
            variants.push(("right operand parenthesised".into(), format!("{} {o} (({}))", atomic(l), show_tree(r))));
        }
    }
    let mut evals = 2 * docs.len() as u64;
    for (what, v) in &variants {
        match verdicts(&rule_text(&PLAIN, v), &docs) {
            Ok(vs) => {
                evals += vs.len() as u64;
                if vs != base {
                    let i = vs.iter().zip(&base).position(|(a, b)| a != b).unwrap_or(0);
                    return Outcome::Violation(format!(
                        "{what}: {v:?} gives {} on {} but {cond:?} gives {}",
                        vs[i],
                        docs[i].show(),
                        base[i]
                    ));
                }
            }
            Err(e) => return Outcome::Violation(format!("{what}: {v:?} does not behave like {cond:?}: {e}")),
        }
    }
    // (4) keyword-prefixed identifier names
    for names in RENAMES.iter() {
        let rc = rename(cond, names);
        match verdicts(&rule_text(names, &rc), &docs) {
            Ok(vs) => {
                evals += vs.len() as u64;
                if vs != base {
                    return Outcome::Violation(format!(
                        "renaming identifiers to {names:?} changes the verdicts of {cond:?} (renamed: {rc:?})"
                    ));
                }
            }
            Err(e) => {
                return Outcome::Violation(format!("condition {rc:?} with keyword-prefixed identifier names: {e}"))
            }
        }
    }
    // non-trivial: >= 2 different operator kinds, or a not followed by a binary operator
    let kinds = ["and ", "or ", "not ", "==", ">", "<", "all(", "of("].iter().filter(|k| cond.contains(*k)).count();
    let nontrivial = kinds >= 2;
    let sig: String = cond
        .split_whitespace()
        .map(|t| if t.chars().all(|c| c.is_alphanumeric()) && !["and", "or", "not"].contains(&t) { "x" } else { t })
        .collect::<Vec<_>>()
        .join(" ");
    Outcome::Pass {
        nontrivial: if nontrivial { Some(hash_str(&sig)) } else { None },
        evaluations: evals,
        labels: vec![],
    }
}

/// All token sequences up to `max` tokens over the symbols, kept if the reference grammar accepts
/// them as a well-formed condition.
pub fn enumerate_conditions(max: usize) -> Vec<String> {
    let symbols = ["A", "B", "C", "and", "or", "not", "(", ")"];
    let names: Vec<String> = PLAIN.iter().map(|s| s.to_string()).collect();
    let mut out = vec![];
    fn rec(cur: &mut Vec<&'static str>, depth: i32, max: usize, symbols: &[&'static str; 8], names: &[String], out: &mut Vec<String>) {
        if !cur.is_empty() && depth == 0 {
            let text = render(cur);
            if let Ok(t) = reference::parse_condition_tree(&text) {
                if reference::validate_tree(&t, names).is_ok() {
                    out.push(text);
                }
            }
        }
        if cur.len() == max {
            return;
        }
        for s in symbols {
            // cheap pruning: parentheses must balance, no two operands in a row
            let d = match *s {
                "(" => depth + 1,
                ")" => depth - 1,
                _ => depth,
            };
            if d < 0 || d as usize > max - cur.len() {
                continue;
            }
            let operand = |x: &str| matches!(x, "A" | "B" | "C");
            if let Some(last) = cur.last() {
                if operand(last) && (operand(s) || *s == "not" || *s == "(") {
                    continue;
                }
                if matches!(*last, "and" | "or" | "not" | "(") && matches!(*s, "and" | "or" | ")") {
                    continue;
                }
                if *last == ")" && (operand(s) || *s == "not" || *s == "(") {
                    continue;
                }
            } else if matches!(*s, "and" | "or" | ")") {
                continue;
            }
            cur.push(s);
            rec(cur, d, max, symbols, names, out);
            cur.pop();
        }
    }
    fn render(toks: &[&str]) -> String {
        let mut s = String::new();
        for (i, t) in toks.iter().enumerate() {
            if i > 0 && !(toks[i - 1] == "(" || *t == ")") {
                s.push(' ');
            }
            s.push_str(t);
        }
        s
    }
    rec(&mut vec![], 0, max, &symbols, &names, &mut out);
    out
}

pub fn run(tier: &str, seed: u64) -> i32 {
    let mut report = Report::new(ID, tier, seed);
    report.exhaustive = true;
    report.rule = "exhaustive part: every well-formed condition of up to 7 tokens (thorough: 8) over A B C and or not ( ), \
        x all 27 assignments of true/false/missing to A, B, C (x 2 settings of the cast fields). Sampled part: \
        conditions of up to ~25 tokens with all(X), of(X,n) and every cast-comparison form. Oracles: (1) the \
        engine's parsed expression (read through the `core` types, not its printed form) equals the tree of an \
        independent precedence-climbing parser with not > comparison > or > and, left-associative; (2) the \
        three-valued result equals the reference evaluation; (3) fully parenthesising by that tree, parenthesising \
        either top-level operand, doubling or padding spaces and adding outer parentheses leave all verdicts \
        unchanged; (4) renaming A,B,C to keyword-prefixed words (android/order/nothing, allow/offline/integer, \
        stringent/notes/flt1) leaves them unchanged. Plus every three-operand chain (or / and-or mixes, negated) over \
        10 atoms incl. field-to-field cast comparisons; three settings of the cast fields. Long and deep conditions: chains of 8-64 operands (thorough 70) of one operator or alternating, with a negation / double negation / parenthesised negation at the first, middle or last place, flat, and up to 16 operands also nested to the right; towers of up to 14 parentheses and `not`s (shake takes time exponential in the nesting depth, so deeper ones are not evaluated). Every document is also matched against the rule optimised with the default switches and with one further switch set; a verdict that differs from the rule as loaded must be explained by the known findings K1 / K2 (relaxed reference for that switch set). Non-trivial: >= 2 different operator kinds; distinct by token \
        shape."
        .into();
    report.assumptions = vec!["associativity of and/or is not observable through verdicts in this logic, so it is pinned structurally on the unoptimised expression".into()];
    let findings = load_findings();
    replay_findings(&mut report, &findings, &judge);

    let conds = enumerate_conditions(if tier == "thorough" { 8 } else { 7 });
    report.label_n("enumerated_well_formed_conditions", conds.len() as u64);
    let subs: Vec<Report> = par_run(|w, n| {
        let mut sub = report.sub();
        for (i, c) in conds.iter().enumerate() {
            if i % n != w {
                continue;
            }
            let mut case = Case::new("c05.condition");
            case.texts = vec![c.clone()];
            let out = judge(&case);
            sub.record(&case, out);
        }
        sub
    });
    for s in subs {
        report.merge(s);
    }
    // chains of three operands over identifiers and cast comparisons that share fields (among them
    // field-to-field comparisons, which only the condition can express), under each connective mix
    let atoms = [
        "A", "B", "int(n1) > int(n2)", "int(n1) == 1", "int(n1) >= 3", "flt(n1) <= flt(n2)", "str(s) == str(t)", "int(n2) < 5",
        "int(n2) == int(n1)", "flt(n1) > 1.5",
    ];
    let mut chains: Vec<String> = vec![];
    for x in atoms {
        for y in atoms {
            for z in atoms {
                if x == y || y == z {
                    continue;
                }
                chains.push(format!("{x} or {y} or {z}"));
                chains.push(format!("not ({x} or {y} or {z})"));
                chains.push(format!("{x} and {y} or {z}"));
                chains.push(format!("{x} or {y} and not {z}"));
            }
        }
    }
    report.label_n("cast_chain_conditions", chains.len() as u64);
    let subs: Vec<Report> = par_run(|w, n| {
        let mut sub = report.sub();
        for (i, c) in chains.iter().enumerate() {
            if i % n != w {
                continue;
            }
            let mut case = Case::new("c05.condition");
            case.texts = vec![c.clone()];
            let out = judge(&case);
            sub.record(&case, out);
        }
        sub
    });
    for s in subs {
        report.merge(s);
    }
    // long and deep conditions: chains of 8-64 operands (one operator, or alternating), with a
    // negation, a double negation or a parenthesised negation at the first / middle / last place;
    // the same chains nested to the right with parentheses; towers of parentheses and of `not`
    {
        let mut long: Vec<String> = vec![];
        let lens: &[usize] = if tier == "thorough" { &[8, 15, 16, 17, 30, 31, 32, 33, 34, 35, 48, 63, 64, 65, 70] } else { &[8, 16, 31, 32, 33, 34, 48, 64] };
        for &n in lens {
            for special in ["not not A", "not A", "not (not A)", "not not not A", "(A)", "not (A and B)", "not not (A or C)"] {
                for pos in [0, n / 2, n - 1] {
                    for ops in [["or", "or"], ["and", "and"], ["or", "and"], ["and", "or"]] {
                        let operands: Vec<String> =
                            (0..n).map(|i| if i == pos { special.to_string() } else { ["B", "C", "B", "A"][i % 4].to_string() }).collect();
                        // left-leaning as the grammar has it
                        let mut flat = operands[0].clone();
                        for (i, o) in operands.iter().enumerate().skip(1) {
                            flat.push_str(&format!(" {} {o}", ops[i % 2]));
                        }
                        long.push(flat);
                        if ops[0] == ops[1] && pos != n / 2 && n <= 16 {
                            // nested to the right with explicit parentheses (short chains only: the optimiser's
                            // shake pass takes time exponential in the nesting depth)
                            let mut right = operands[n - 1].clone();
                            for o in operands.iter().rev().skip(1) {
                                right = format!("{o} {} ({right})", ops[0]);
                            }
                            long.push(right);
                        }
                    }
                }
            }
        }
        for depth in [3usize, 5, 8, 11, 14] {
            long.push(format!("{}A{} and B", "(".repeat(depth), ")".repeat(depth)));
            long.push(format!("{}A", "not ".repeat(depth)));
            long.push(format!("{}A or C", "not ".repeat(depth + 1)));
            long.push(format!("B or {}not A or C{}", "(".repeat(depth), ")".repeat(depth)));
            long.push(format!("{}(A and not C)", "not (".repeat(depth)) + &")".repeat(depth));
        }
        report.label_n("long_and_deep_conditions", long.len() as u64);
        let subs: Vec<Report> = par_run(|w, n| {
            let mut sub = report.sub();
            for (i, c) in long.iter().enumerate() {
                if i % n != w {
                    continue;
                }
                let mut case = Case::new("c05.condition");
                case.texts = vec![c.clone()];
                let out = judge(&case);
                sub.label("long_or_deep_condition");
                sub.record(&case, out);
            }
            sub
        });
        for s in subs {
            report.merge(s);
        }
    }
    // whole rules with case twins and with several predicates on one field
    {
        let twins = gen::twin_rules();
        let subs: Vec<Report> = par_run(|w, n| {
            let mut sub = report.sub();
            for (i, (a, b, docs)) in twins.iter().enumerate() {
                if i % n != w {
                    continue;
                }
                for text in [a, b] {
                    let cond = text.lines().find(|l| l.starts_with("  condition:")).unwrap_or("").trim_start_matches("  condition: ").to_string();
                    let mut c = Case::new("c05.reference");
                    c.rules = vec![text.clone(), text.replace(&format!("  condition: {cond}\n"), &format!("  condition: not ({cond})\n"))];
                    c.docs = docs.clone();
                    let out = judge(&c);
                    sub.label("case_twin_rule");
                    sub.record(&c, out);
                }
            }
            sub
        });
        for s in subs {
            report.merge(s);
        }
    }
    gen::drive(
        &mut report,
        41,
        if tier == "thorough" { 60_000 } else { 2_000 },
        gen::rule_same_field_focus,
        |rule: &crate::spec::RuleSpec| {
            if !rule.well_formed() {
                return vec![];
            }
            let mut c = Case::new("c05.reference");
            c.rules = vec![rule.text(), rule.negated_text()];
            c.docs = gen::same_field_docs_for(rule, "f1");
            vec![c]
        },
        judge,
        |_, rep| rep.label("same_field_rule"),
    );
    // sampled larger conditions with every atom kind
    let n = if tier == "thorough" { 200_000 } else { 6_000 };
    let names: Vec<String> = PLAIN.iter().map(|s| s.to_string()).collect();
    gen::drive(
        &mut report,
        40,
        n,
        || gen::shape(true, true, true),
        |sh: &gen::Shape| {
            let cond = gen::resolve_shape(sh, &names).text();
            let mut case = Case::new("c05.condition");
            case.texts = vec![cond];
            vec![case]
        },
        judge,
        |_, rep| rep.label("sampled_condition"),
    );
    report.finish()
}
