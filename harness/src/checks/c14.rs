//! C14 Rule serialisation round-trips.

use proptest::prelude::*;
use serde_yaml::Value as Y;

use crate::common::*;
use crate::engine::{self, guarded, Load, Switches};
use crate::gen;
use crate::model::{DObj, DocVal};
use crate::spec::*;

pub const ID: &str = "C14";

fn sort_value(v: &Y) -> Y {
    match v {
        Y::Mapping(m) => {
            let mut es: Vec<(Y, Y)> = m.iter().map(|(k, v)| (k.clone(), sort_value(v))).collect();
            es.sort_by(|a, b| format!("{:?}", a.0).cmp(&format!("{:?}", b.0)));
            let mut out = serde_yaml::Mapping::new();
            for (k, v) in es {
                out.insert(k, v);
            }
            Y::Mapping(out)
        }
        // the order of a sequence is significant and must be preserved
        Y::Sequence(s) => Y::Sequence(s.iter().map(sort_value).collect()),
        other => other.clone(),
    }
}

fn parts(v: &Y) -> (Y, Y, Y) {
    (
        sort_value(v.get("detection").unwrap_or(&Y::Null)),
        v.get("true_positives").cloned().unwrap_or(Y::Null),
        v.get("true_negatives").cloned().unwrap_or(Y::Null),
    )
}

/// rules[0] = rule text; docs = documents; switches = switch set used for the "optimised before
/// serialising" variant.
pub fn judge(case: &Case) -> Outcome {
    let text = &case.rules[0];
    let original_value: Y = match serde_yaml::from_str(text) {
        Ok(v) => v,
        Err(_) => return Outcome::Skip("rule text is not YAML".into()),
    };
    let from_text = engine::load_text(text);
    let from_value = engine::load_value(original_value.clone());
    let rule = match (from_text, from_value) {
        (Load::Ok(a), Load::Ok(b)) => {
            // loading from text and from the equivalent value must agree
            for (i, d) in case.docs.iter().enumerate() {
                match (engine::matches(&a, d), engine::matches(&b, d)) {
                    (Ok(x), Ok(y)) if x == y => {}
                    (Ok(x), Ok(y)) => {
                        return Outcome::Violation(format!(
                            "doc #{i} {}: rule loaded from text matches={x} but loaded from the equivalent YAML value matches={y}",
                            d.show()
                        ))
                    }
                    (Err(p), _) | (_, Err(p)) => return Outcome::Violation(format!("matches panicked: {p}")),
                }
            }
            a
        }
        (Load::Rejected(_), Load::Rejected(_)) => return Outcome::Skip("rule does not load".into()),
        (Load::Panicked(p), _) | (_, Load::Panicked(p)) => return Outcome::Violation(format!("loader panicked: {p}")),
        (Load::Ok(_), Load::Rejected(e)) => {
            return Outcome::Violation(format!("rule loads from text but not from the equivalent YAML value: {e}"))
        }
        (Load::Rejected(e), Load::Ok(_)) => {
            return Outcome::Violation(format!("rule loads from the YAML value but not from the text: {e}"))
        }
    };
    let mut base = vec![];
    for d in &case.docs {
        match engine::matches(&rule, d) {
            Ok(b) => base.push(b),
            Err(p) => return Outcome::Violation(format!("matches panicked: {p}")),
        }
    }
    let mut evals = case.docs.len() as u64 * 3;
    let sw = Switches::from_bits(case.switches.unwrap_or(15));
    let optimised = match engine::optimise(&rule, sw) {
        Ok(o) => o,
        Err(p) => return Outcome::Violation(format!("optimise panicked: {p}")),
    };
    // the optimised rule is serialised with its written condition, so what it loads to is the rule
    // as written: the two have to agree (up to the known findings K1 / K2, as in C01)
    {
        let rr = crate::reference::load_rule_text(text, false).ok();
        if let Err(o) = crate::checks::c02::optimised_agreement(text, &rule, rr.as_ref(), "", &case.docs) {
            return o;
        }
    }
    for (which, r) in [("the loaded rule", &rule), ("the optimised rule", &optimised)] {
        let ser = match guarded(|| serde_yaml::to_string(r)) {
            Ok(Ok(s)) => s,
            Ok(Err(e)) => return Outcome::Violation(format!("serialising {which} failed: {e}")),
            Err(p) => return Outcome::Violation(format!("serialising {which} panicked: {p}")),
        };
        let ser_value: Y = match serde_yaml::from_str(&ser) {
            Ok(v) => v,
            Err(e) => return Outcome::Violation(format!("serialised form of {which} is not YAML: {e}\n{ser}")),
        };
        if parts(&ser_value) != parts(&original_value) {
            return Outcome::Violation(format!(
                "serialising {which} changes its condition, identifiers or examples:\n--- original\n{text}\n--- serialised\n{ser}"
            ));
        }
        let reloaded = match engine::load_text(&ser) {
            Load::Ok(r) => r,
            Load::Rejected(e) => {
                return Outcome::Violation(format!("serialised form of {which} does not load: {e}\n{ser}"))
            }
            Load::Panicked(p) => return Outcome::Violation(format!("loading the serialised form panicked: {p}")),
        };
        for (i, d) in case.docs.iter().enumerate() {
            match engine::matches(&reloaded, d) {
                Ok(b) if b == base[i] => {}
                Ok(b) => {
                    return Outcome::Violation(format!(
                        "doc #{i} {}: the rule matches={} but after serialising {which} and loading the result matches={b}\n{ser}",
                        d.show(),
                        base[i]
                    ))
                }
                Err(p) => return Outcome::Violation(format!("matches panicked: {p}")),
            }
            evals += 1;
        }
        // further generations: every serialisation may list the identifiers in another order
        // (they are kept in a hash map), and none of them may change a verdict
        let generations = case.extra.get("generations").and_then(|g| g.as_u64()).unwrap_or(0);
        let mut cur = reloaded.clone();
        for g in 0..generations {
            let ser_g = match guarded(|| serde_yaml::to_string(&cur)) {
                Ok(Ok(s)) => s,
                _ => return Outcome::Violation(format!("serialising generation {g} of {which} failed")),
            };
            cur = match engine::load_text(&ser_g) {
                Load::Ok(r) => r,
                Load::Rejected(e) => return Outcome::Violation(format!("generation {g} of {which} does not load: {e}\n{ser_g}")),
                Load::Panicked(p) => return Outcome::Violation(format!("loading generation {g} panicked: {p}")),
            };
            for (i, d) in case.docs.iter().enumerate() {
                match engine::matches(&cur, d) {
                    Ok(b) if b == base[i] => {}
                    Ok(b) => {
                        return Outcome::Violation(format!(
                            "doc #{i} {}: the rule matches={} but generation {} of serialise-and-load of {which} matches={b}\n{ser_g}",
                            d.show(),
                            base[i],
                            g + 2
                        ))
                    }
                    Err(p) => return Outcome::Violation(format!("matches panicked: {p}")),
                }
                evals += 1;
            }
        }
        // a second round trip is a fixed point
        let ser2 = serde_yaml::to_string(&reloaded).unwrap_or_default();
        let v2: Y = serde_yaml::from_str(&ser2).unwrap_or(Y::Null);
        if parts(&v2) != parts(&ser_value) {
            return Outcome::Violation(format!("second round trip of {which} changes the rule:\n{ser}\n---\n{ser2}"));
        }
    }
    let sensitive = case.extra.get("sensitive").and_then(|s| s.as_bool()).unwrap_or(false);
    Outcome::Pass {
        nontrivial: if sensitive { Some(hash_str(text)) } else { None },
        evaluations: evals,
        labels: if sensitive { vec!["has_quoting_sensitive_scalar"] } else { vec![] },
    }
}

const SENSITIVE: &[&str] = &[
    "*x", "x*", "*x*", "*", "?a b", "?^a$", "'x'", "\"x\"", "1", "1.0", "-1", "0x1f", "1e3", "true", "false", "null", "~",
    "yes", "no", " x", "x ", " ", "a: b", "- x", "#c", "a #c", "%", "@", "&a", "!t", "|", ">", ">=1", "=1", "<2.5",
    "é", "日本", "a\tb", "a\nb", "\u{1}", "\u{85}", "{a}", "[a]", "a,b", "i*X*", "'", "\"", "''", "\"\"", ": ", "?",
    "i", ".", "..", "0", "00", "0.0", ".5", "+1", "1_000", "0o7", "2001-01-01", "=", "<<",
    // anchored literal regexes (an optimiser may turn them into plain searches)
    "i?^k$", "i?^kelvin$", "i?s$", "?^K", "i?^mass$",
];

fn sensitive_string() -> BoxedStrategy<String> {
    prop::sample::select(SENSITIVE.to_vec()).prop_map(|s| s.to_string()).boxed()
}

fn inject(rule: &RuleSpec, picks: &[(u16, String)]) -> (RuleSpec, bool) {
    let mut r = rule.clone();
    let mut changed = false;
    for (which, s) in picks {
        // the string must still be a loadable pattern in its position
        let ok = matches!(crate::reference::parse_pattern(s, false), Ok(p) if p.is_string_kind());
        if !ok {
            continue;
        }
        let mut slots: Vec<&mut ValSpec> = vec![];
        fn pattern_ok(t: &str) -> bool {
            matches!(crate::reference::parse_pattern(t, false), Ok(p) if p.is_string_kind())
        }
        fn collect<'a>(b: &'a mut Block, out: &mut Vec<&'a mut ValSpec>) {
            for e in b.0.iter_mut() {
                let castable = matches!(e.key.modifier, KMod::None | KMod::Not | KMod::Str | KMod::All | KMod::Of(_));
                let is_str_pat = matches!(&e.val, ValSpec::Str(t) if pattern_ok(t));
                if castable && is_str_pat {
                    out.push(&mut e.val);
                    continue;
                }
                match &mut e.val {
                    ValSpec::List(l) if castable => {
                        for v in l.iter_mut() {
                            let ok = matches!(&*v, ValSpec::Str(t) if pattern_ok(t));
                            if ok {
                                out.push(v);
                            } else if let ValSpec::Block(b) = v {
                                collect(b, out);
                            }
                        }
                    }
                    ValSpec::Block(b) => collect(b, out),
                    _ => {}
                }
            }
        }
        for (_, b) in r.idents.iter_mut() {
            for bl in b.blocks_mut() {
                collect(bl, &mut slots);
            }
        }
        if slots.is_empty() {
            continue;
        }
        let n = slots.len();
        *slots[(*which as usize * n) >> 16] = ValSpec::Str(s.clone());
        changed = true;
    }
    (r, changed)
}

pub fn run(tier: &str, seed: u64) -> i32 {
    let mut report = Report::new(ID, tier, seed);
    report.rule = "grammar-G rules in which 0-3 string patterns are replaced by quoting-sensitive strings (leading `*`/`?`, \
        quoted literals, numeric-, boolean- and null-looking text, leading/trailing blanks, `a: b`, `- x`, `#c`, YAML \
        indicators, multi-byte and control characters, ...), with example documents carrying such strings too, x 6 \
        recipe documents x a switch set. Oracles: Rule::from_str(text) and Rule::from_value(parsed text) both load \
        and agree on every document; serde_yaml::to_string of the rule (as loaded, and after optimise) parses to the \
        same detection block (condition, identifiers) and the same examples, loads again, gives the verdict of the \
        original rule on every document, and a second round trip is a fixed point. A second stream puts YAML-typed plain \
        scalars (1, 1.5, true, ~, null, .inf and their quoted spellings) where the format wants strings - identifier \
        names, the condition - and null / non-sequence values where it wants example lists: text and value must \
        agree on whether the rule loads; texts with anchors, aliases and merge keys; and the optimised rule must \
        agree with the rule its serialised form loads to (up to the known findings K1 / K2). Non-trivial: the rule holds a \
        quoting-sensitive scalar; distinct by rule text."
        .into();
    report.assumptions = vec![];
    let findings = load_findings();
    replay_findings(&mut report, &findings, &judge);
    let n = if tier == "thorough" { 300_000 } else { 10_000 };
    gen::drive(
        &mut report,
        80,
        n,
        || {
            (
                gen::rule(gen::RuleOpts::default()),
                prop::collection::vec((any::<u16>(), sensitive_string()), 0..=3),
                prop::collection::vec(gen::doc_recipe(), 6),
                prop::collection::vec((sensitive_string(), sensitive_string()), 0..=2),
                prop_oneof![2 => Just(15u8), 1 => 0u8..16],
            )
        },
        |(rule, picks, recipes, examples, sw): &(RuleSpec, Vec<(u16, String)>, Vec<gen::DocRecipe>, Vec<(String, String)>, u8)| {
            if !rule.well_formed() {
                return vec![];
            }
            let (r, changed) = inject(rule, picks);
            if !r.well_formed() {
                return vec![];
            }
            let tps: Vec<Y> = examples
                .iter()
                .map(|(a, b)| {
                    let mut m = serde_yaml::Mapping::new();
                    m.insert(Y::String("f1".into()), Y::String(a.clone()));
                    m.insert(Y::String(b.clone()), Y::String(a.clone()));
                    Y::Mapping(m)
                })
                .collect();
            let mut c = Case::new("c14.roundtrip");
            let mut det = r.detection_yaml();
            if *sw % 3 == 0 {
                // extra blanks in the condition are legal and must survive a round trip verbatim
                if let Y::Mapping(m) = &mut det {
                    let spaced = format!(" {} ", r.cond.text().replace(' ', "  "));
                    m.insert(Y::String("condition".into()), Y::String(spaced));
                }
            }
            if *sw % 4 == 1 {
                // the deprecated `string(` spelling of the str() key modifier
                fn alias(v: &Y) -> Y {
                    match v {
                        Y::Mapping(m) => Y::Mapping(
                            m.iter()
                                .map(|(k, x)| {
                                    let k2 = match k.as_str() {
                                        Some(t) if t.starts_with("str(") => Y::String(t.replacen("str(", "string(", 1)),
                                        _ => k.clone(),
                                    };
                                    (k2, alias(x))
                                })
                                .collect(),
                        ),
                        Y::Sequence(s) => Y::Sequence(s.iter().map(alias).collect()),
                        other => other.clone(),
                    }
                }
                if let Y::Mapping(m) = &det {
                    let cond = m.get(Y::String("condition".into())).cloned();
                    let mut out = match alias(&det) {
                        Y::Mapping(x) => x,
                        _ => unreachable!(),
                    };
                    if let Some(c) = cond {
                        out.insert(Y::String("condition".into()), c);
                    }
                    det = Y::Mapping(out);
                }
            }
            c.rules = vec![engine::rule_text(&det, &tps, &tps)];
            let mut docs: Vec<_> = recipes.iter().map(|x| gen::build_doc(&r, x)).collect();
            // documents that carry the sensitive strings themselves
            for (_, s) in picks.iter() {
                let mut d = docs[0].clone();
                d.set("f1", DocVal::Str(s.clone()));
                d.set("f2", DocVal::Str(s.trim_matches(|c| c == '*' || c == '\'' || c == '"').to_string()));
                docs.push(d);
            }
            for t in ["\u{212a}", "\u{17f}", "\u{212a}elvin", "mas\u{17f}", "K", "S"] {
                let mut d = DObj::default();
                d.set("f1", DocVal::s(t));
                d.set("f2", DocVal::s(t));
                docs.push(d);
            }
            c.docs = docs;
            c.switches = Some(*sw);
            c.extra = serde_json::json!({"sensitive": changed || !examples.is_empty()});
            vec![c]
        },
        judge,
        |_, _| {},
    );
    // plain scalars that YAML types (`1`, `1.5`, `true`, `~`) where the rule format wants strings:
    // identifier names, the condition, and the example lists. Text and value have to agree on
    // whether such a rule loads at all; quoted spellings are ordinary strings and must round-trip.
    let typed = ["1", "1.5", "true", "false", "~", "null", "-3", "0x1F", ".inf", "'1'", "\"true\"", "'~'", "'1.5'"];
    gen::drive(
        &mut report,
        81,
        n / 4,
        || {
            (
                gen::rule(gen::RuleOpts::default()),
                prop::collection::vec(gen::doc_recipe(), 4),
                0u8..6,
                any::<u16>(),
                any::<bool>(),
            )
        },
        move |(rule, recipes, variant, pick, second): &(RuleSpec, Vec<gen::DocRecipe>, u8, u16, bool)| {
            if !rule.well_formed() {
                return vec![];
            }
            let name = typed[(*pick as usize * typed.len()) >> 16];
            let mut text = engine::rule_text(&rule.detection_yaml(), &[], &[]);
            match variant {
                // an extra identifier the condition does not use
                0 => text = text.replacen("detection:\n", &format!("detection:\n  {name}:\n    f1: a\n"), 1),
                // an identifier of that name which the condition does use
                1 => {
                    let word = name.trim_matches(|c| c == '\'' || c == '"');
                    if !word.chars().all(|c| c.is_ascii_alphabetic()) {
                        return vec![];
                    }
                    text = text
                        .replacen("detection:\n", &format!("detection:\n  {name}:\n    f1: a\n"), 1)
                        .replacen("  condition: ", &format!("  condition: {word} or "), 1);
                    if *second {
                        // the whole condition is that one plain scalar
                        let start = text.find("  condition: ").unwrap_or(0);
                        let end = text[start..].find('\n').map(|i| start + i).unwrap_or(text.len());
                        text.replace_range(start..end, &format!("  condition: {word}"));
                    }
                }
                // example lists that are null / absent values instead of sequences
                2 => {
                    let what = if *second { "true_positives: []" } else { "true_negatives: []" };
                    let with = what.replace("[]", if *pick % 2 == 0 { "~" } else { "" });
                    text = text.replacen(what, with.trim_end(), 1);
                }
                3 => {
                    let what = if *second { "true_positives: []" } else { "true_negatives: []" };
                    let with = what.replace("[]", ["{}", "''", "0", "[~]"][(*pick % 4) as usize]);
                    text = text.replacen(what, &with, 1);
                }
                // anchors, aliases and merge keys: text and value have to treat them alike
                4 => {
                    let extra = if *second {
                        "  Zanchor: &zz\n    f1: a\n  Zmerge:\n    <<: *zz\n    f2: b\n"
                    } else {
                        "  Zanchor: &zz\n    f1: a\n  Zalias: *zz\n"
                    };
                    text = text.replacen("detection:\n", &format!("detection:\n{extra}"), 1);
                }
                _ => {
                    let what = if *second { "true_positives: []" } else { "true_negatives: []" };
                    let with = if *pick % 2 == 0 {
                        what.replace("[]", "\n- &ex\n  f1: a\n- *ex")
                    } else {
                        what.replace("[]", "\n- &ex\n  f1: a\n- <<: *ex\n  f2: b")
                    };
                    text = text.replacen(what, &with, 1);
                }
            }
            let mut c = Case::new("c14.roundtrip");
            c.rules = vec![text];
            c.docs = recipes.iter().map(|x| gen::build_doc(rule, x)).collect();
            c.switches = Some(15);
            c.extra = serde_json::json!({"sensitive": true, "typed_scalar_variant": variant});
            vec![c]
        },
        judge,
        |(_, _, variant, _, _), rep| rep.label(&format!("typed_scalar_variant_{variant}")),
    );
    // curated rules: case twins in big or-groups and in sequences (an optimiser that drops the
    // "duplicate" gives a rule that differs from what its serialised form loads to), and key-order
    // twins (identifiers that are equal as YAML values but not as rules; the serialised form may
    // list the identifiers in another order)
    {
        let mut curated: Vec<(String, Vec<DObj>, &'static str)> = vec![];
        for (a, b, docs) in gen::twin_rules() {
            curated.push((a, docs.clone(), "case_or_cast_twin_rule"));
            curated.push((b, docs, "case_or_cast_twin_rule"));
        }
        for (t, docs) in gen::order_twin_rules() {
            curated.push((t, docs, "key_order_twin_rule"));
        }
        let subs: Vec<Report> = par_run(|w, n| {
            let mut sub = report.sub();
            for (i, (text, docs, label)) in curated.iter().enumerate() {
                if i % n != w {
                    continue;
                }
                for sw in [15u8, 3] {
                    let mut c = Case::new("c14.roundtrip");
                    c.rules = vec![text.clone()];
                    c.docs = docs.clone();
                    c.switches = Some(sw);
                    // several generations: each reload may list the identifiers in another order
                    c.extra = serde_json::json!({"sensitive": true, "generations": 6});
                    let out = judge(&c);
                    sub.label(label);
                    sub.record(&c, out);
                }
            }
            sub
        });
        for s in subs {
            report.merge(s);
        }
    }
    report.finish()
}
