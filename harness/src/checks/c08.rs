//! C08 List quantifiers count the members the author wrote.
//!
//! Metamorphic, engine vs engine: a quantified form is compared with what its members say when
//! each member is written as a one-member rule of its own. Cross-checked against the reference.

use std::sync::OnceLock;

use proptest::prelude::*;
use serde_json::json;

use crate::checks::c02;
use crate::common::*;
use crate::engine::{self, Load, Tri};
use crate::gen;
use crate::reference::{self, KeyMod, RIdent, RVal};
use crate::spec::*;

pub const ID: &str = "C08";

fn active() -> &'static std::collections::HashSet<String> {
    static A: OnceLock<std::collections::HashSet<String>> = OnceLock::new();
    A.get_or_init(|| active_signatures(&load_findings(), ID))
}

/// rules = [quantified, member_1, not member_1, member_2, not member_2, ...]
/// extra = { quant: "plain" | "all" | "of", n, form }
fn judge_impl(case: &Case, strict: bool) -> Outcome {
    let quant = case.extra["quant"].as_str().unwrap_or("plain").to_string();
    let n = case.extra["n"].as_u64().unwrap_or(1);
    let mut rules = vec![];
    for (i, t) in case.rules.iter().enumerate() {
        match engine::load_text(t) {
            Load::Ok(r) => rules.push(r),
            Load::Rejected(e) => {
                return if i == 0 {
                    // the quantified form must load whenever every member loads on its own
                    let members_load =
                        case.rules[1..].iter().all(|m| matches!(engine::load_text(m), Load::Ok(_)));
                    if members_load {
                        Outcome::Violation(format!("quantified form rejected although every member loads: {e}"))
                    } else {
                        Outcome::Skip("a member does not load".into())
                    }
                } else {
                    Outcome::Skip(format!("member rule does not load: {e}"))
                };
            }
            Load::Panicked(p) => return Outcome::Violation(format!("loader panicked: {p}")),
        }
    }
    let k = (rules.len() - 1) / 2;
    // the quantified rule is also evaluated after optimisation (default switches, rewrite only,
    // shake only): counting must survive it. Compared on truth at top level only.
    let mut optimised = vec![];
    for bits in [15u8, 4, 2] {
        match engine::optimise(&rules[0], engine::Switches::from_bits(bits)) {
            Ok(o) => optimised.push((bits, o)),
            Err(p) => return Outcome::Violation(format!("optimise panicked: {p}")),
        }
    }
    // K3 signature, recomputed from the rule text
    let k3 = is_k3(&case.rules[0]);
    let mut evals = 0;
    let mut labels = vec![];
    let mut saw_true = false;
    let mut saw_nontrue = false;
    let mut partial = false;
    for (di, doc) in case.docs.iter().enumerate() {
        let q = match engine::matches(&rules[0], doc) {
            Ok(b) => b,
            Err(p) => return Outcome::Violation(format!("matches panicked: {p}")),
        };
        let mut tris = vec![];
        for i in 0..k {
            let pos = engine::matches(&rules[1 + 2 * i], doc);
            let neg = engine::matches(&rules[2 + 2 * i], doc);
            match (pos, neg) {
                (Ok(p), Ok(ng)) => tris.push(Tri::from_probe(p, ng)),
                (Err(p), _) | (_, Err(p)) => return Outcome::Violation(format!("matches panicked: {p}")),
            }
        }
        evals += 1 + 2 * k as u64;
        let t = tris.iter().filter(|x| **x == Tri::T).count() as u64;
        let f = tris.iter().filter(|x| **x == Tri::F).count() as u64;
        if tris.iter().any(|x| *x == Tri::Both) {
            return Outcome::Violation("a member matches both as written and negated".into());
        }
        let expected: Option<bool> = match quant.as_str() {
            "plain" => Some(t >= 1),
            "all" => Some(t == k as u64),
            _ => {
                if n == 0 {
                    if t > 0 {
                        Some(false)
                    } else if f > 0 {
                        Some(true)
                    } else {
                        // nothing matches but nothing is definitely false either (absent field or
                        // wrong kind): must not be true when the field is absent; undocumented
                        // otherwise
                        labels.push("of0_all_missing_not_judged");
                        None
                    }
                } else {
                    Some(t >= n)
                }
            }
        };
        if t > 0 && t < k as u64 {
            partial = true;
        }
        if let Some(e) = expected {
            for (bits, o) in &optimised {
                match engine::matches(o, doc) {
                    Ok(v) if v == e => {}
                    Ok(v) => {
                        return Outcome::Violation(format!(
                            "doc #{di} {}: {quant}(n={n}) over {k} members gives {v} after optimise({}), but the members on their own give [{}] => expected {e}",
                            doc.show(),
                            engine::Switches::from_bits(*bits).show(),
                            tris.iter().map(|x| x.show()).collect::<Vec<_>>().join(","),
                        ))
                    }
                    Err(p) => return Outcome::Violation(format!("matches panicked: {p}")),
                }
                evals += 1;
            }
            if e {
                saw_true = true
            } else {
                saw_nontrue = true
            }
            if q != e {
                if k3 && !strict && active().contains("K3") {
                    return Outcome::Known("K3".into());
                }
                return Outcome::Violation(format!(
                    "doc #{di} {}: {quant}(n={n}) over {k} members gives {q}, but the members on their own give [{}] => expected {e}",
                    doc.show(),
                    tris.iter().map(|x| x.show()).collect::<Vec<_>>().join(","),
                ));
            }
        }
    }
    if k3 {
        labels.push("mixed_batch_list_agreeing");
    }
    let nontrivial = (k >= 2 || (k == 1 && n != 1 && quant == "of")) && partial | (saw_true && saw_nontrue);
    Outcome::Pass {
        nontrivial: if nontrivial { Some(hash_str(&case.rules[0])) } else { None },
        evaluations: evals,
        labels,
    }
}

fn is_k3(rule_text: &str) -> bool {
    let Ok(r) = reference::load_rule_text(rule_text, false) else { return false };
    for (_, id) in &r.idents {
        let blocks: Vec<&reference::RBlock> = match id {
            RIdent::Map(b) => vec![b],
            RIdent::Seq(bs) => bs.iter().collect(),
        };
        for b in blocks {
            for e in &b.0 {
                if let (KeyMod::All | KeyMod::Of(_), RVal::List(ms)) = (&e.modifier, &e.val) {
                    if reference::k3_shape(ms, &e.modifier) {
                        return true;
                    }
                }
            }
        }
    }
    false
}

pub fn judge(case: &Case) -> Outcome {
    match case.kind.as_str() {
        "c08.reference" => c02::judge(case),
        _ => judge_impl(case, false),
    }
}

pub fn judge_strict(case: &Case) -> Outcome {
    match case.kind.as_str() {
        "c08.reference" => c02::judge(case),
        _ => judge_impl(case, true),
    }
}

#[derive(Clone, Debug)]
pub struct QCase {
    pub quant: u8, // 0 plain, 1 all, 2 of
    pub n: u64,
    pub members: Vec<ValSpec>,
    pub form: u8, // 0 key list, 1 sequence identifier, 2 mapping identifier, 3 identifier that is one key with the list
    pub recipes: Vec<gen::DocRecipe>,
}

fn member_rule(field: &str, m: &ValSpec) -> RuleSpec {
    RuleSpec {
        idents: vec![(
            "M".to_string(),
            Body::Map(Block(vec![Entry { key: KeySpec::plain(field), val: m.clone() }])),
        )],
        cond: CondSpec::Ident("M".to_string()),
    }
}

pub fn expand(q: &QCase) -> Vec<Case> {
    let k = q.members.len();
    let n = q.n.min(k as u64 + 1);
    let is_block = q.members.iter().any(|m| matches!(m, ValSpec::Block(_)));
    let base_field = if is_block { "objs" } else { "h" };
    let field_of = |i: usize| -> String {
        if q.form == 2 && !is_block {
            format!("h{i}")
        } else {
            base_field.to_string()
        }
    };
    let (quant, modifier, cond): (&str, KMod, CondSpec) = match (q.quant, q.form) {
        (0, _) => ("plain", KMod::None, CondSpec::Ident("Q".into())),
        (1, 0) => ("all", KMod::All, CondSpec::Ident("Q".into())),
        (_, 0) => ("of", KMod::Of(n), CondSpec::Ident("Q".into())),
        (1, _) => ("all", KMod::None, CondSpec::All("Q".into())),
        (_, _) => ("of", KMod::None, CondSpec::Of("Q".into(), n)),
    };
    let body = match q.form {
        0 => Body::Map(Block(vec![Entry {
            key: KeySpec { modifier, field: base_field.to_string() },
            val: ValSpec::List(q.members.clone()),
        }])),
        1 => Body::Seq(
            q.members
                .iter()
                .enumerate()
                .map(|(i, m)| Block(vec![Entry { key: KeySpec::plain(&field_of(i)), val: m.clone() }]))
                .collect(),
        ),
        // the list is all there is to the identifier: all(Q) / of(Q, n) count its members
        3 => Body::Map(Block(vec![Entry { key: KeySpec::plain(base_field), val: ValSpec::List(q.members.clone()) }])),
        // the same under a str() cast (string members only)
        4 => {
            let all_strings = q.members.iter().all(|m| match m {
                ValSpec::Str(t) => matches!(crate::reference::parse_pattern(t, false), Ok(p) if p.is_string_kind()),
                _ => false,
            });
            if !all_strings {
                return vec![];
            }
            Body::Map(Block(vec![Entry {
                key: KeySpec { modifier: KMod::Str, field: base_field.to_string() },
                val: ValSpec::List(q.members.clone()),
            }]))
        }
        _ => {
            if is_block || k < 2 {
                // a mapping cannot hold the same key twice: use the sequence form
                Body::Seq(
                    q.members
                        .iter()
                        .enumerate()
                        .map(|(i, m)| Block(vec![Entry { key: KeySpec::plain(&field_of(i)), val: m.clone() }]))
                        .collect(),
                )
            } else {
                Body::Map(Block(
                    q.members
                        .iter()
                        .enumerate()
                        .map(|(i, m)| Entry { key: KeySpec::plain(&field_of(i)), val: m.clone() })
                        .collect(),
                ))
            }
        }
    };
    if q.quant == 0 && q.form != 0 {
        // plain disjunction over identifier entries only exists for sequences
        if let Body::Map(_) = body {
            return vec![];
        }
    }
    let qrule = RuleSpec { idents: vec![("Q".to_string(), body)], cond };
    let mut docs: Vec<_> = q.recipes.iter().map(|r| gen::build_doc(&qrule, r)).collect();
    // array fields whose elements satisfy different members: a member matches an array when some
    // element does, so the quantifier has to combine hits across the elements
    if q.form == 4 {
        // values that only a cast turns into text
        for v in [crate::model::DocVal::Int(1), crate::model::DocVal::UInt(5), crate::model::DocVal::Int(15), crate::model::DocVal::Bool(true), crate::model::DocVal::Float(1.5), crate::model::DocVal::s("15"), crate::model::DocVal::Int(-1)] {
            docs.push(crate::model::DObj(vec![(base_field.to_string(), v)]));
        }
    }
    if (q.form == 0 || q.form == 3 || q.form == 4) && !is_block && !q.recipes.is_empty() {
        let truths: Vec<crate::model::DocVal> = crate::spec::collect_leaves(&qrule)
            .iter()
            .filter(|l| l.field == base_field)
            .enumerate()
            .map(|(i, l)| {
                let scalar = crate::spec::Leaf { modifier: KMod::None, ..l.clone() };
                crate::spec::value_for(&scalar, true, (i * 2) as u8)
            })
            .filter(|v| !matches!(v, crate::model::DocVal::Arr(_)))
            .collect();
        if !truths.is_empty() {
            let mk = |vals: Vec<crate::model::DocVal>| crate::model::DObj(vec![(base_field.to_string(), crate::model::DocVal::arr(vals))]);
            docs.push(mk(truths.clone()));
            docs.push(mk(truths.iter().rev().skip(1).cloned().collect()));
            docs.push(mk(truths.iter().step_by(2).cloned().chain(std::iter::once(crate::model::DocVal::s("zz"))).collect()));
        }
    }
    let mut c = Case::new("c08.members");
    c.rules.push(qrule.text());
    for (i, m) in q.members.iter().enumerate() {
        let mut mr = member_rule(&field_of(i), m);
        if q.form == 4 {
            // the member on its own carries the cast as well
            if let Body::Map(b) = &mut mr.idents[0].1 {
                b.0[0].key.modifier = KMod::Str;
            }
        }
        c.rules.push(mr.text());
        c.rules.push(mr.negated_text());
    }
    c.docs = docs.clone();
    c.extra = json!({"quant": quant, "n": n, "form": q.form, "k": k});
    // cross-check of the quantified form against the reference
    let mut r = Case::new("c08.reference");
    r.rules = vec![qrule.text(), qrule.negated_text()];
    r.docs = docs;
    vec![c, r]
}

fn simple_block() -> BoxedStrategy<ValSpec> {
    prop::collection::vec(
        (prop::sample::select(vec!["x", "y", "n"]), prop_oneof![
            3 => gen::string_pattern().prop_map(ValSpec::Str),
            1 => gen::small_int().prop_map(ValSpec::Int),
        ]),
        1..=2,
    )
    .prop_map(|es| {
        let mut b = Block::default();
        for (f, v) in es {
            if !b.0.iter().any(|e| e.key.field == f) {
                b.0.push(Entry { key: KeySpec::plain(f), val: v });
            }
        }
        ValSpec::Block(b)
    })
    .boxed()
}

/// homogeneous member lists; `avoid_k3` keeps string members in one batch kind
fn members() -> BoxedStrategy<Vec<ValSpec>> {
    let one_batch = prop::collection::vec("[abAB]{1,2}", 1..=5).prop_flat_map(|needles| {
        let k = needles.len();
        (Just(needles), prop::collection::vec(0u8..4, k), any::<bool>()).prop_map(|(ns, kinds, ci)| {
            ns.iter()
                .zip(kinds)
                .map(|(n, kind)| {
                    let t = match kind {
                        0 => n.clone(),
                        1 => format!("{n}*"),
                        2 => format!("*{n}"),
                        _ => format!("*{n}*"),
                    };
                    ValSpec::Str(if ci { format!("i{t}") } else { t })
                })
                .collect::<Vec<_>>()
        })
    });
    let regexes = (
        prop::collection::vec(prop::sample::select(vec!["?a", "?^a", "?b$", "?a.b", "?[ab]+c", "?^ab$", "?A", "?B$", "?^[ab]", "?ab", "?.*ab", "?ab.*", "?.*ab.*", "?.*a", "?^.*ab", "?1", "?^5", "?\\d", "?^\\d+$", "?true"]), 1..=4),
        0u8..3,
        any::<u8>(),
    )
        .prop_map(|(rs, flavour, bits)| {
            rs.iter()
                .enumerate()
                .map(|(i, r)| {
                    let ci = match flavour {
                        0 => false,
                        1 => true,
                        _ => (bits >> i) & 1 == 1,
                    };
                    ValSpec::Str(if ci { format!("i{r}") } else { r.to_string() })
                })
                .collect::<Vec<_>>()
        });
    // every member twice, once with each case flag (equal needles in a case-sensitive and a
    // case-insensitive batch of one list)
    let twins = prop::collection::vec(("[ab]{1,2}", 0u8..4), 2..=3).prop_map(|ms| {
        let pats: Vec<String> = ms
            .iter()
            .map(|(n, k)| match k {
                0 => n.clone(),
                1 => format!("{n}*"),
                2 => format!("*{n}"),
                _ => format!("*{n}*"),
            })
            .collect();
        pats.iter().cloned().chain(pats.iter().map(|p| format!("i{p}"))).map(ValSpec::Str).collect::<Vec<_>>()
    });
    prop_oneof![
        5 => one_batch,
        2 => twins,
        3 => prop::collection::vec(gen::string_pattern().prop_map(ValSpec::Str), 1..=5),
        3 => regexes,
        3 => prop::collection::vec(prop_oneof![
                3 => gen::small_int().prop_map(ValSpec::Int),
                1 => gen::small_float().prop_map(ValSpec::Float),
                3 => gen::int_pattern().prop_map(ValSpec::Str),
                1 => gen::float_pattern().prop_map(ValSpec::Str),
            ], 1..=5),
        1 => prop::collection::vec(any::<bool>().prop_map(ValSpec::Bool), 1..=2),
        2 => prop::collection::vec(simple_block(), 1..=3),
        1 => (prop::collection::vec(gen::string_pattern().prop_map(ValSpec::Str), 1..=3)).prop_map(|mut v| { v.push(ValSpec::Null); v }),
    ]
    .boxed()
}

fn qcase() -> BoxedStrategy<QCase> {
    (0u8..3, 0u64..=6, members(), 0u8..5, prop::collection::vec(gen::doc_recipe(), 6))
        .prop_map(|(quant, n, members, form, recipes)| QCase { quant, n, members, form, recipes })
        .boxed()
}

/// Exhaustive palette part (thorough): every list of length <= 3 from a 10-member palette under
/// every quantifier and threshold, against a fixed set of haystacks.
fn palette_cases(max_len: usize) -> Vec<Case> {
    let palette = ["a", "ab*", "*b", "*a*", "ib", "i*B*", "?a.b", "?^a", "''", "*"];
    let hays = ["", "a", "b", "ab", "ba", "acb", "B", "AB", "aab", "xyz"];
    let hay_arrays: Vec<Vec<&str>> = vec![vec![], vec!["a", "b"], vec!["ab", "ba"], vec!["acb", "B"], vec!["", "xyz"], vec!["b", "AB", "a"]];
    let recipes: Vec<gen::DocRecipe> = vec![];
    let mut out = vec![];
    let mut lists: Vec<Vec<usize>> = vec![];
    let mut layer: Vec<Vec<usize>> = vec![vec![]];
    for _ in 0..max_len {
        let mut next = vec![];
        for l in &layer {
            for i in 0..palette.len() {
                let mut m = l.clone();
                m.push(i);
                next.push(m);
            }
        }
        lists.extend(next.iter().cloned());
        layer = next;
    }
    for l in lists.iter().filter(|l| !l.is_empty()) {
        let members: Vec<ValSpec> = l.iter().map(|i| ValSpec::Str(palette[*i].to_string())).collect();
        for (quant, n) in std::iter::once((0u8, 0u64))
            .chain(std::iter::once((1, 0)))
            .chain((0..=l.len() as u64 + 1).map(|n| (2, n)))
        {
            for form in [0u8, 3] {
                let q = QCase { quant, n, members: members.clone(), form, recipes: recipes.clone() };
                for mut c in expand(&q) {
                    c.docs = hays
                        .iter()
                        .map(|h| crate::model::DObj(vec![("h".to_string(), crate::model::DocVal::s(h))]))
                        .chain(std::iter::once(crate::model::DObj::default()))
                        .chain(hay_arrays.iter().map(|a| {
                            crate::model::DObj(vec![(
                                "h".to_string(),
                                crate::model::DocVal::arr(a.iter().map(|h| crate::model::DocVal::s(h)).collect()),
                            )])
                        }))
                        .collect();
                    out.push(c);
                }
            }
        }
    }
    out
}

/// Lists around the 64-member boundary (the solver counts hits in a bitmap below it and in a hash
/// set from it on), all in one automaton batch, against documents holding chosen subsets.
pub fn big_list_cases(tier: &str) -> Vec<Case> {
    big_list_cases_of_kind(tier, "c08.members")
}

/// The same lists as cases for the reference interpreter (rule + negated rule).
pub fn big_list_reference_cases(tier: &str) -> Vec<Case> {
    big_list_cases_of_kind(tier, "c08.reference")
}

fn big_list_cases_of_kind(tier: &str, kind: &str) -> Vec<Case> {
    let lens: &[usize] = if tier == "thorough" { &[62, 63, 64, 65, 66, 80, 130] } else { &[63, 64, 65, 70] };
    let mut out = vec![];
    for &len in lens {
        for flavour in 0..4u8 {
            let needle = |i: usize| format!("n{:03}x", i);
            let members: Vec<ValSpec> = (0..len)
                .map(|i| {
                    let n = needle(i);
                    ValSpec::Str(match (flavour, i % 3) {
                        (0, _) => format!("*{n}*"),
                        (1, _) => format!("i*{n}*"),
                        // exact members next to substring members
                        (3, 0) => n.clone(),
                        (3, 1) => format!("{n}*"),
                        (3, _) => format!("*{n}*"),
                        (_, 0) => format!("*{n}*"),
                        (_, 1) => format!("{n}*"),
                        _ => format!("*{n}"),
                    })
                })
                .collect();
            // documents: none, one, two, three, half, all needles; order matters for history effects
            let subsets: Vec<Vec<usize>> = vec![
                vec![3],
                vec![17],
                vec![],
                vec![3, 17],
                vec![1, 2, 4],
                (0..len).step_by(2).collect(),
                (1..len).step_by(2).collect(),
                (0..len).collect(),
                vec![len - 1],
                vec![0, len - 1],
                vec![5],
            ];
            let docs: Vec<crate::model::DObj> = subsets
                .iter()
                .map(|sub| {
                    // prefix members need the needle first, suffix members last: put one of each
                    let mut text = String::new();
                    let mut firsts: Vec<usize> = sub.iter().cloned().filter(|i| flavour == 2 && i % 3 == 1).collect();
                    let mut lasts: Vec<usize> = sub.iter().cloned().filter(|i| flavour == 2 && i % 3 == 2).collect();
                    let first = firsts.pop();
                    let last = lasts.pop();
                    if let Some(f) = first {
                        text.push_str(&needle(f));
                    }
                    for i in sub {
                        if Some(*i) != first && Some(*i) != last {
                            text.push(' ');
                            text.push_str(&if flavour == 1 { needle(*i).to_uppercase() } else { needle(*i) });
                            text.push(' ');
                        }
                    }
                    if let Some(l) = last {
                        text.push_str(&needle(l));
                    }
                    crate::model::DObj(vec![("h".to_string(), crate::model::DocVal::Str(text))])
                })
                .chain(std::iter::once(crate::model::DObj::default()))
                .chain([needle(0), format!("{}z", needle(0)), format!("z{}", needle(0)), needle(3), format!("{}{}", needle(3), needle(6)),
                    format!(" {} {} ", needle(4), needle(4)), format!(" {0} {0} {0} {1} ", needle(7), needle(9))].into_iter().map(
                    |t| crate::model::DObj(vec![("h".to_string(), crate::model::DocVal::Str(t))]),
                ))
                .collect();
            for (quant, n) in [(1u8, 0u64), (2, 1), (2, 2), (2, 3), (2, 63), (2, 64), (2, len as u64), (2, 0), (0, 0)] {
                for form in [0u8, 3] {
                    let q = QCase { quant, n, members: members.clone(), form, recipes: vec![] };
                    for mut c in expand(&q) {
                        if c.kind == kind {
                            c.docs = docs.clone();
                            c.extra["big"] = json!(true);
                            out.push(c);
                        }
                    }
                }
            }
        }
    }
    out
}

pub fn run(tier: &str, seed: u64) -> i32 {
    let mut report = Report::new(ID, tier, seed);
    report.rule = "member lists of length 1..5 (strings of every relation and case flag, regexes, numbers and numeric \
        patterns, booleans, null, nested mappings; homogeneous where the loader requires it) x {plain, all, of(n) \
        with n = 0..len+1} x {key list, all(X)/of(X,n) over a sequence identifier, over a mapping identifier, over an identifier that is one key with the list} x 6 \
        recipe documents; plus every list of length <= 2 (thorough: 3) from a 10-pattern palette under every \
        quantifier and threshold against 11 fixed haystacks (exhaustive). Oracle: each member is also loaded as a \
        one-member rule (and its negation, giving a three-valued member result); the quantified verdict must \
        equal: plain = some member true, all = every member true, of(n>=1) = at least n true, of(0) = none true \
        and at least one false. The quantified rule is additionally checked against the reference interpreter. \
        Sampled lists include every member with both case flags (twins) and array documents whose elements \
        satisfy different members. Non-trivial: list length >= 2 (or length 1 with threshold != 1) and the documents make some but not all \
        members true or give both verdicts; distinct by rule text."
        .into();
    report.assumptions = vec![
        "quantified key lists against array-valued fields are not judged".into(),
        "of(.., 0) where no member is true and none is definitely false (absent field, wrong kind) is not judged".into(),
    ];
    let findings = load_findings();
    replay_findings(&mut report, &findings, &judge_strict);
    let mut pal = palette_cases(if tier == "thorough" { 3 } else { 2 });
    pal.extend(big_list_cases(tier));
    let chunks: Vec<Report> = par_run(|w, n| {
        let mut sub = report.sub();
        for (i, c) in pal.iter().enumerate() {
            if i % n != w {
                continue;
            }
            let out = judge(c);
            sub.label(if c.extra.get("big").is_some() { "big_list_case" } else { "palette_case" });
            sub.record(c, out);
        }
        sub
    });
    for s in chunks {
        report.merge(s);
    }
    let n = if tier == "thorough" { 500_000 } else { 30_000 };
    gen::drive(&mut report, 4, n, qcase, |q: &QCase| expand(q), judge, |q, rep| {
        rep.label(match q.quant {
            0 => "quant_plain",
            1 => "quant_all",
            _ => "quant_of",
        });
        rep.label(match q.form {
            0 => "form_key_list",
            1 => "form_sequence_identifier",
            _ => "form_mapping_identifier",
        });
        if q.members.len() == 1 {
            rep.label("single_member_list");
        }
    });
    report.finish()
}
