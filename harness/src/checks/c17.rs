//! C17 Order of operands never decides whether and/or is true.

use proptest::prelude::*;

use crate::common::*;
use crate::engine::{self, Load, Switches};
use crate::gen;
use crate::spec::*;

pub const ID: &str = "C17";

/// rules[0] = original, rules[1..] = permuted variants; all must give the same verdicts,
/// unoptimised and with the default switches.
pub fn judge(case: &Case) -> Outcome {
    let mut base: Option<(Vec<bool>, Vec<bool>)> = None;
    let mut evals = 0;
    for (ri, text) in case.rules.iter().enumerate() {
        let rule = match engine::load_text(text) {
            Load::Ok(r) => r,
            Load::Rejected(e) => {
                return if ri == 0 {
                    Outcome::Skip("rule does not load".into())
                } else {
                    Outcome::Violation(format!("the permuted rule does not load although the original does: {e}\n{text}"))
                }
            }
            Load::Panicked(p) => return Outcome::Violation(format!("loader panicked: {p}")),
        };
        let opt = match engine::optimise(&rule, Switches::default_on()) {
            Ok(o) => o,
            Err(p) => return Outcome::Violation(format!("optimise panicked: {p}")),
        };
        let mut v = vec![];
        let mut vo = vec![];
        for d in &case.docs {
            match (engine::matches(&rule, d), engine::matches(&opt, d)) {
                (Ok(a), Ok(b)) => {
                    v.push(a);
                    vo.push(b);
                }
                (Err(p), _) | (_, Err(p)) => return Outcome::Violation(format!("matches panicked: {p}")),
            }
            evals += 2;
        }
        // the optimiser reorders and merges operands too (shake sorts searches and moves nested
        // blocks, matrix orders cells by column): in a rule without any negation the truth of
        // every and/or, and so the verdict, has to survive that as well
        if case.extra.get("negation_free").and_then(|m| m.as_bool()).unwrap_or(false) && v != vo {
            let i = v.iter().zip(vo.iter()).position(|(x, y)| x != y).unwrap_or(0);
            return Outcome::Violation(format!(
                "doc #{i} {}: negation-free rule (variant #{ri}) gives {} as loaded but {} after the optimiser reordered / merged its operands:\n{}",
                case.docs[i].show(),
                v[i],
                vo[i],
                text
            ));
        }
        match &base {
            None => base = Some((v, vo)),
            Some((b, bo)) => {
                for (which, got, want) in [("unoptimised", &v, b), ("default-optimised", &vo, bo)] {
                    if got != want {
                        let i = got.iter().zip(want.iter()).position(|(x, y)| x != y).unwrap_or(0);
                        return Outcome::Violation(format!(
                            "doc #{i} {}: {which} verdict {} for the original order but {} after reordering operands:\n--- original\n{}\n--- reordered\n{}",
                            case.docs[i].show(),
                            want[i],
                            got[i],
                            case.rules[0],
                            text
                        ));
                    }
                }
            }
        }
    }
    let (b, _) = base.unwrap_or_default();
    let varied = b.iter().any(|x| *x) && b.iter().any(|x| !*x);
    let mixed = case.extra.get("mixed").and_then(|m| m.as_bool()).unwrap_or(false);
    Outcome::Pass {
        nontrivial: if case.rules.len() > 1 && (varied || mixed) { Some(hash_str(&case.rules[0])) } else { None },
        evaluations: evals,
        labels: if mixed { vec!["position_with_mixed_operand_kinds"] } else { vec![] },
    }
}

// ---------------------------------------------------------------------------------------------
// Permutable positions of a rule
// ---------------------------------------------------------------------------------------------

#[derive(Default)]
struct Walker {
    /// index of the position to permute; usize::MAX = all positions
    target: usize,
    counter: usize,
    /// permutation to apply at the target (indices into the operand list); None = reverse
    perm: Option<Vec<usize>>,
    /// sizes of all positions found
    sizes: Vec<usize>,
    seed: u64,
}

impl Walker {
    fn permute<T: Clone>(&mut self, items: &mut Vec<T>) {
        let idx = self.counter;
        self.counter += 1;
        self.sizes.push(items.len());
        if items.len() < 2 {
            return;
        }
        if self.target == usize::MAX {
            // pseudo-random shuffle of every position
            let n = items.len();
            for i in (1..n).rev() {
                let j = (mix(self.seed, (idx * 31 + i) as u64) % (i as u64 + 1)) as usize;
                items.swap(i, j);
            }
        } else if idx == self.target {
            match &self.perm {
                Some(p) if p.len() == items.len() => {
                    let old = items.clone();
                    for (k, &src) in p.iter().enumerate() {
                        items[k] = old[src].clone();
                    }
                }
                _ => items.reverse(),
            }
        }
    }

    fn block(&mut self, b: &mut Block) {
        self.permute(&mut b.0);
        for e in b.0.iter_mut() {
            self.val(&mut e.val);
        }
    }
    fn val(&mut self, v: &mut ValSpec) {
        match v {
            ValSpec::Block(b) => self.block(b),
            ValSpec::List(l) => {
                self.permute(l);
                for x in l.iter_mut() {
                    self.val(x);
                }
            }
            _ => {}
        }
    }
    fn body(&mut self, b: &mut Body) {
        match b {
            Body::Map(bl) => self.block(bl),
            Body::Seq(bs) => {
                self.permute(bs);
                for bl in bs.iter_mut() {
                    self.block(bl);
                }
            }
        }
    }
    fn cond(&mut self, c: &mut CondSpec) {
        match c {
            CondSpec::And(_, _) | CondSpec::Or(_, _) => {
                let is_and = matches!(c, CondSpec::And(_, _));
                let mut ops = vec![];
                flatten(c.clone(), is_and, &mut ops);
                self.permute(&mut ops);
                for o in ops.iter_mut() {
                    self.cond(o);
                }
                // rebuild a left-deep chain; operands of the other operator keep their own parentheses
                let mut it = ops.into_iter();
                let mut acc = wrap(it.next().unwrap(), is_and);
                for o in it {
                    let o = wrap(o, is_and);
                    acc = if is_and {
                        CondSpec::And(Box::new(acc), Box::new(o))
                    } else {
                        CondSpec::Or(Box::new(acc), Box::new(o))
                    };
                }
                *c = acc;
            }
            CondSpec::Paren(x) => self.cond(x),
            // nothing below a negation is reordered
            _ => {}
        }
    }
}

fn flatten(c: CondSpec, is_and: bool, out: &mut Vec<CondSpec>) {
    match c {
        CondSpec::And(a, b) if is_and => {
            flatten(*a, is_and, out);
            flatten(*b, is_and, out);
        }
        CondSpec::Or(a, b) if !is_and => {
            flatten(*a, is_and, out);
            flatten(*b, is_and, out);
        }
        CondSpec::Paren(x) if matches!((&*x, is_and), (CondSpec::And(_, _), true) | (CondSpec::Or(_, _), false)) => {
            flatten(*x, is_and, out)
        }
        other => out.push(other),
    }
}

/// An operand that is itself a chain of the other operator must stay grouped.
fn wrap(c: CondSpec, _parent_is_and: bool) -> CondSpec {
    match c {
        CondSpec::And(_, _) | CondSpec::Or(_, _) => CondSpec::Paren(Box::new(c)),
        other => other,
    }
}

fn walk(rule: &RuleSpec, w: &mut Walker) -> RuleSpec {
    let mut r = rule.clone();
    for (_, b) in r.idents.iter_mut() {
        w.body(b);
    }
    w.cond(&mut r.cond);
    r
}

fn permutations(n: usize) -> Vec<Vec<usize>> {
    fn rec(cur: &mut Vec<usize>, used: &mut Vec<bool>, n: usize, out: &mut Vec<Vec<usize>>) {
        if cur.len() == n {
            out.push(cur.clone());
            return;
        }
        for i in 0..n {
            if !used[i] {
                used[i] = true;
                cur.push(i);
                rec(cur, used, n, out);
                cur.pop();
                used[i] = false;
            }
        }
    }
    let mut out = vec![];
    rec(&mut vec![], &mut vec![false; n], n, &mut out);
    out
}

pub fn variants(rule: &RuleSpec, pick: u16, seed: u64) -> (Vec<RuleSpec>, bool) {
    // discover positions
    let mut w = Walker { target: usize::MAX - 1, ..Default::default() };
    let _ = walk(rule, &mut w);
    let sizes = w.sizes.clone();
    let candidates: Vec<usize> = sizes.iter().enumerate().filter(|(_, s)| **s >= 2).map(|(i, _)| i).collect();
    let mut out = vec![];
    if candidates.is_empty() {
        return (out, false);
    }
    // one position: every permutation (<= 4 operands) or 24 sampled ones
    let target = candidates[(pick as usize * candidates.len()) >> 16];
    let n = sizes[target];
    let perms: Vec<Vec<usize>> = if n <= 4 {
        permutations(n).into_iter().skip(1).collect()
    } else {
        (0..24u64)
            .map(|k| {
                let mut p: Vec<usize> = (0..n).collect();
                for i in (1..n).rev() {
                    let j = (mix(seed ^ k, i as u64) % (i as u64 + 1)) as usize;
                    p.swap(i, j);
                }
                p
            })
            .collect()
    };
    for p in perms {
        let mut w = Walker { target, perm: Some(p), ..Default::default() };
        out.push(walk(rule, &mut w));
    }
    // every position reversed, one at a time
    for &t in candidates.iter().take(8) {
        if t != target {
            let mut w = Walker { target: t, perm: None, ..Default::default() };
            out.push(walk(rule, &mut w));
        }
    }
    // everything shuffled at once, three times
    for k in 0..3u64 {
        let mut w = Walker { target: usize::MAX, seed: mix(seed, k), ..Default::default() };
        out.push(walk(rule, &mut w));
    }
    // is the chosen position one with operands of different batch kinds?
    let mixed = position_is_mixed(rule, target);
    (out, mixed)
}

fn position_is_mixed(rule: &RuleSpec, target: usize) -> bool {
    // re-walk to find the list at `target` and classify its string members
    struct Finder {
        target: usize,
        counter: usize,
        mixed: bool,
    }
    impl Finder {
        fn visit<T>(&mut self, _items: &[T]) -> bool {
            let hit = self.counter == self.target;
            self.counter += 1;
            hit
        }
        fn block(&mut self, b: &Block) {
            if self.visit(&b.0) {
                let fields: std::collections::HashSet<&String> = b.0.iter().map(|e| &e.key.field).collect();
                self.mixed = fields.len() >= 2;
            }
            for e in &b.0 {
                self.val(&e.val);
            }
        }
        fn val(&mut self, v: &ValSpec) {
            match v {
                ValSpec::Block(b) => self.block(b),
                ValSpec::List(l) => {
                    if self.visit(l) {
                        let mut kinds = std::collections::HashSet::new();
                        for m in l {
                            kinds.insert(match m {
                                ValSpec::Str(t) => match crate::reference::parse_pattern(t, false) {
                                    Ok(p) => match p.pat {
                                        crate::reference::Pat::Regex(_) => {
                                            if p.ci {
                                                "iregex"
                                            } else {
                                                "regex"
                                            }
                                        }
                                        crate::reference::Pat::Num(_, _) | crate::reference::Pat::Any => "other",
                                        _ => {
                                            if p.ci {
                                                "istring"
                                            } else {
                                                "string"
                                            }
                                        }
                                    },
                                    Err(_) => "other",
                                },
                                _ => "other",
                            });
                        }
                        self.mixed = kinds.len() >= 2;
                    }
                    for x in l {
                        self.val(x);
                    }
                }
                _ => {}
            }
        }
    }
    let mut f = Finder { target, counter: 0, mixed: false };
    for (_, b) in &rule.idents {
        match b {
            Body::Map(bl) => f.block(bl),
            Body::Seq(bs) => {
                if f.visit(bs) {
                    f.mixed = true;
                }
                for bl in bs {
                    f.block(bl);
                }
            }
        }
    }
    if !f.mixed && f.counter <= target {
        // a condition chain
        return true;
    }
    f.mixed
}

pub fn run(tier: &str, seed: u64) -> i32 {
    let mut report = Report::new(ID, tier, seed);
    report.rule = "negation-free grammar-G rules (and, for a third of the cases, such a rule conjoined with `not N` for an \
        extra identifier N that is left untouched) x 8 recipe documents. Variants: one commutative position chosen \
        at random - the operands of an and/or chain in the condition, the members of a list (plain, all(), of(n>=1)), \
        the mappings of a sequence, the entries of a mapping (at any nesting level) - is put through every \
        permutation (<= 4 operands) or 24 sampled ones; up to 8 other positions are reversed one at a time; and all \
        positions are shuffled together three times. Oracle: every variant loads and gives the original's verdict \
        on every document, unoptimised and with the default switches; for rules without any negation the \
        default-optimised rule must also agree with the rule as loaded (the optimiser reorders and merges operands \
        too). Wide sequences of 100-380 mappings are reversed, rotated and shuffled. Non-trivial: the documents give both \
        verdicts, or the chosen position mixes batch kinds (string / i-string / regex / i-regex / other) or \
        fields; distinct by rule text."
        .into();
    report.assumptions = vec!["nothing underneath a negation, not(k) or of(.., 0) is reordered (the rules are generated without them, except the untouched `not N`)".into()];
    let findings = load_findings();
    replay_findings(&mut report, &findings, &judge);
    let n = if tier == "thorough" { 150_000 } else { 5_000 };
    gen::drive(
        &mut report,
        90,
        n,
        || {
            (
                prop_oneof![
                    3 => gen::rule(gen::RuleOpts { negation: false, ..Default::default() }),
                    1 => gen::rule_focus(false),
                    1 => gen::rule_nested_focus(false),
                ],
                prop::collection::vec(gen::doc_recipe(), 8),
                any::<u16>(),
                any::<u64>(),
                prop_oneof![2 => Just(None), 1 => gen::body().prop_map(Some)],
            )
        },
        |(rule, recipes, pick, s, neg): &(RuleSpec, Vec<gen::DocRecipe>, u16, u64, Option<Body>)| {
            if !rule.well_formed() {
                return vec![];
            }
            let (vars, mixed) = variants(rule, *pick, *s);
            if vars.is_empty() {
                return vec![];
            }
            // optional untouched negated identifier
            let finish = |r: &RuleSpec| -> RuleSpec {
                match neg {
                    Some(b) => {
                        let mut r = r.clone();
                        let mut b = b.clone();
                        for bl in b.blocks_mut() {
                            // N itself may contain anything; it is never permuted
                            let _ = bl;
                        }
                        r.idents.push(("Nneg".to_string(), b));
                        r.cond = CondSpec::And(
                            Box::new(CondSpec::Paren(Box::new(r.cond.clone()))),
                            Box::new(CondSpec::Not(Box::new(CondSpec::Ident("Nneg".to_string())))),
                        );
                        r
                    }
                    None => r.clone(),
                }
            };
            let orig = finish(rule);
            if !orig.well_formed() {
                return vec![];
            }
            let mut c = Case::new("c17.permute");
            c.rules.push(orig.text());
            for v in &vars {
                c.rules.push(finish(v).text());
            }
            c.docs = recipes.iter().map(|r| gen::build_doc(&orig, r)).collect();
            c.extra = serde_json::json!({"mixed": mixed, "variants": vars.len(), "negation_free": neg.is_none()});
            vec![c]
        },
        judge,
        |_, _| {},
    );
    // case twins in both orders: which twin comes first must not matter (negation-free shapes only)
    for (a, b, docs) in gen::twin_rules() {
        // only shapes without negation in which the two twins stand symmetrically
        let cond = a.lines().find(|l| l.starts_with("  condition:")).unwrap_or("");
        if cond.contains("not") || cond.contains("all(") || cond.contains("of(") {
            continue;
        }
        let mut c = Case::new("c17.permute");
        c.rules = vec![a, b];
        c.docs = docs;
        c.extra = serde_json::json!({"mixed": true, "variants": 1, "negation_free": true});
        let out = judge(&c);
        report.label("case_twins_swapped");
        report.record(&c, out);
    }
    // wide sequences (hundreds of mappings: matrix rows, column keys beyond one byte): the order of
    // the mappings is reversed, rotated and shuffled
    gen::drive(
        &mut report,
        91,
        if tier == "thorough" { 400 } else { 40 },
        || (gen::rule_wide(), prop::collection::vec(any::<u16>(), 24), any::<u64>()),
        |(rule, picks, s): &(RuleSpec, Vec<u16>, u64)| {
            if matches!(rule.cond, CondSpec::Not(_)) {
                return vec![];
            }
            let blocks = match &rule.idents[0].1 {
                Body::Seq(b) => b.clone(),
                _ => return vec![],
            };
            let with = |b: Vec<Block>| RuleSpec { idents: vec![(rule.idents[0].0.clone(), Body::Seq(b))], cond: rule.cond.clone() };
            let n = blocks.len();
            let mut orders: Vec<Vec<usize>> = vec![(0..n).rev().collect(), (0..n).map(|i| (i + n / 2) % n).collect()];
            for k in 0..3u64 {
                let mut p: Vec<usize> = (0..n).collect();
                for i in (1..n).rev() {
                    let j = (mix(*s ^ k, i as u64) % (i as u64 + 1)) as usize;
                    p.swap(i, j);
                }
                orders.push(p);
            }
            let mut c = Case::new("c17.permute");
            c.rules.push(rule.text());
            for o in orders {
                c.rules.push(with(o.iter().map(|i| blocks[*i].clone()).collect()).text());
            }
            c.docs = gen::wide_docs(rule, picks);
            c.extra = serde_json::json!({"mixed": true, "variants": 5, "wide": true, "negation_free": true});
            vec![c]
        },
        judge,
        |_, rep| rep.label("wide_sequence"),
    );
    report.finish()
}
