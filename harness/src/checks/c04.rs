//! C04 Loading arbitrary text returns a rule or an error, never a panic (and terminates).

use std::collections::HashMap;
use std::sync::{Mutex, OnceLock};
use std::thread::ThreadId;
use std::time::{Duration, Instant};

use proptest::prelude::*;
use serde_yaml::Value as Y;
use tau_engine::core::parser::{parse_identifier, IdentifierParser, Tokeniser};

use crate::common::*;
use crate::engine::{self, guarded, Load};
use crate::gen;
use crate::spec::RuleSpec;

pub const ID: &str = "C04";
const HANG_SECS: u64 = 20;

// ---------------------------------------------------------------------------------------------
// Watchdog: which input is each worker thread loading right now, and since when
// ---------------------------------------------------------------------------------------------

fn slots() -> &'static Mutex<HashMap<ThreadId, (Case, Instant)>> {
    static S: OnceLock<Mutex<HashMap<ThreadId, (Case, Instant)>>> = OnceLock::new();
    S.get_or_init(|| Mutex::new(HashMap::new()))
}

struct InFlight;
impl InFlight {
    fn enter(case: &Case) -> InFlight {
        slots().lock().unwrap().insert(std::thread::current().id(), (case.clone(), Instant::now()));
        InFlight
    }
}
impl Drop for InFlight {
    fn drop(&mut self) {
        slots().lock().unwrap().remove(&std::thread::current().id());
    }
}

fn start_watchdog(seed: u64, tier: String) {
    std::thread::spawn(move || loop {
        std::thread::sleep(Duration::from_secs(2));
        let stuck: Option<Case> = {
            let g = slots().lock().unwrap();
            g.values().find(|(_, t)| t.elapsed() > Duration::from_secs(HANG_SECS)).map(|(c, _)| c.clone())
        };
        if let Some(case) = stuck {
            // write the input, confirm in fresh child processes, then report
            let dir = verif_root().join("replays").join(ID);
            let _ = std::fs::create_dir_all(&dir);
            let path = dir.join(format!("hang_{:016x}.json", case.hash64()));
            let mut j = case.to_json();
            j["property"] = serde_json::json!(ID);
            j["message"] = serde_json::json!(format!("loading did not terminate within {HANG_SECS} s"));
            j["seed"] = serde_json::json!(seed);
            j["tier"] = serde_json::json!(tier);
            let _ = std::fs::write(&path, serde_json::to_string_pretty(&j).unwrap());
            let exe = std::env::current_exe().expect("exe");
            let mut confirmed = 0;
            for _ in 0..2 {
                let mut child = match std::process::Command::new(&exe).arg("replay").arg(&path).spawn() {
                    Ok(c) => c,
                    Err(_) => break,
                };
                let started = Instant::now();
                loop {
                    match child.try_wait() {
                        Ok(Some(_)) => break,
                        Ok(None) if started.elapsed() > Duration::from_secs(HANG_SECS) => {
                            let _ = child.kill();
                            confirmed += 1;
                            break;
                        }
                        Ok(None) => std::thread::sleep(Duration::from_millis(200)),
                        Err(_) => break,
                    }
                }
            }
            if confirmed == 2 {
                println!("VIOLATION property={} replay={}", ID, path.display());
                std::process::exit(1);
            } else {
                eprintln!("watchdog: a case exceeded {HANG_SECS} s but did not reproduce in a fresh process; inconclusive");
                std::process::exit(2);
            }
        }
    });
}

// ---------------------------------------------------------------------------------------------
// Judge
// ---------------------------------------------------------------------------------------------

fn shape_sig(s: &str) -> String {
    s.chars()
        .take(12)
        .map(|c| {
            if c.is_ascii_alphabetic() {
                'a'
            } else if c.is_ascii_digit() {
                '1'
            } else if c.is_alphanumeric() {
                'U'
            } else if !c.is_ascii() {
                'u'
            } else {
                c
            }
        })
        .collect()
}

fn fixed_rule(cond: &str, ident_key: &str, value: &Y) -> Y {
    let mut inner = serde_yaml::Mapping::new();
    inner.insert(Y::String(ident_key.to_string()), value.clone());
    let mut det = serde_yaml::Mapping::new();
    det.insert("A".into(), Y::Mapping(inner));
    det.insert("B".into(), serde_yaml::from_str("- f1: a\n- f2: ['*b*', ic]\n").unwrap());
    det.insert("condition".into(), Y::String(cond.to_string()));
    let mut m = serde_yaml::Mapping::new();
    m.insert("detection".into(), Y::Mapping(det));
    m.insert("true_positives".into(), Y::Sequence(vec![]));
    m.insert("true_negatives".into(), Y::Sequence(vec![]));
    Y::Mapping(m)
}

/// Load a YAML value both ways; Err(message) on a panic.
fn load_both(v: &Y) -> Result<(bool, bool), String> {
    let a = match engine::load_value(v.clone()) {
        Load::Ok(_) => true,
        Load::Rejected(_) => false,
        Load::Panicked(p) => return Err(format!("Rule::from_value panicked: {p}")),
    };
    let text = match serde_yaml::to_string(v) {
        Ok(t) => t,
        Err(_) => return Ok((a, false)),
    };
    let b = match engine::load_text(&text) {
        Load::Ok(_) => true,
        Load::Rejected(_) => false,
        Load::Panicked(p) => return Err(format!("Rule::from_str panicked: {p}\n{text}")),
    };
    Ok((a, b))
}

pub fn judge(case: &Case) -> Outcome {
    let _guard = InFlight::enter(case);
    let text = case.texts.first().cloned().unwrap_or_default();
    let mut evals = 0u64;
    let mut labels: Vec<&'static str> = vec![];
    let mut accepted = false;
    match case.kind.as_str() {
        "c04.condition" => {
            match guarded(|| text.clone().tokenise().map(|t| t.len())) {
                Ok(Ok(n)) => {
                    labels.push("tokenised");
                    if n > 0 {
                        labels.push("tokens_produced");
                    }
                }
                Ok(Err(_)) => labels.push("tokeniser_error"),
                Err(p) => return Outcome::Violation(format!("tokenise({text:?}) panicked: {p}")),
            }
            evals += 1;
            match load_both(&fixed_rule(&text, "f1", &Y::String("a".into()))) {
                Ok((a, b)) => {
                    accepted = a || b;
                    evals += 2
                }
                Err(m) => return Outcome::Violation(format!("condition {text:?}: {m}")),
            }
        }
        "c04.pattern" => {
            match guarded(|| text.clone().into_identifier().is_ok()) {
                Ok(ok) => labels.push(if ok { "pattern_parsed" } else { "pattern_error" }),
                Err(p) => return Outcome::Violation(format!("into_identifier({text:?}) panicked: {p}")),
            }
            evals += 1;
            let p = Y::String(text.clone());
            let lists = [
                Y::Sequence(vec![p.clone()]),
                Y::Sequence(vec![p.clone(), Y::String("a".into())]),
                Y::Sequence(vec![Y::String("ia".into()), p.clone(), Y::String("?b".into())]),
                Y::Sequence(vec![p.clone(), p.clone(), Y::String("*a*".into()), Y::String("b*".into())]),
                Y::Sequence(vec![
                    p.clone(),
                    Y::String(text.replacen('?', "?a", 1)),
                    Y::String(text.replacen('?', "?b", 1)),
                    Y::String(text.replacen('?', "?c", 1)),
                ]),
            ];
            for key in ["f1", "not(f1)", "str(f1)", "int(f1)", "flt(f1)"] {
                for v in std::iter::once(&p).chain(lists.iter()) {
                    match load_both(&fixed_rule("A", key, v)) {
                        Ok((a, b)) => {
                            accepted |= a || b;
                            evals += 2
                        }
                        Err(m) => return Outcome::Violation(format!("pattern {text:?} under key {key}: {m}")),
                    }
                }
            }
            for key in ["all(f1)", "of(f1, 1)", "of(f1, 0)", "of(f1, 3)"] {
                for v in lists.iter() {
                    match load_both(&fixed_rule("A", key, v)) {
                        Ok((a, b)) => {
                            accepted |= a || b;
                            evals += 2
                        }
                        Err(m) => return Outcome::Violation(format!("pattern {text:?} under key {key}: {m}")),
                    }
                }
            }
        }
        "c04.key" => {
            for v in [Y::String("a".into()), Y::Sequence(vec![Y::String("a".into()), Y::String("*b".into())]), Y::Number(1.into())] {
                let mut m = serde_yaml::Mapping::new();
                m.insert(Y::String(text.clone()), v.clone());
                match guarded(|| parse_identifier(&Y::Mapping(m.clone())).is_ok()) {
                    Ok(ok) => {
                        if ok {
                            labels.push("key_parsed")
                        }
                    }
                    Err(p) => return Outcome::Violation(format!("parse_identifier with key {text:?} panicked: {p}")),
                }
                evals += 1;
                match load_both(&fixed_rule("A", &text, &v)) {
                    Ok((a, b)) => {
                        accepted |= a || b;
                        evals += 2
                    }
                    Err(m) => return Outcome::Violation(format!("key {text:?}: {m}")),
                }
            }
        }
        "c04.text" => {
            match engine::load_text(&text) {
                Load::Ok(_) => accepted = true,
                Load::Rejected(_) => {}
                Load::Panicked(p) => return Outcome::Violation(format!("Rule::from_str panicked: {p}")),
            }
            evals += 1;
        }
        "c04.yaml" => {
            let v: Y = match serde_yaml::from_str(&text) {
                Ok(v) => v,
                Err(_) => return Outcome::Skip("yaml does not parse".into()),
            };
            match load_both(&v) {
                Ok((a, b)) => {
                    accepted = a || b;
                    evals += 2
                }
                Err(m) => return Outcome::Violation(m),
            }
            // identifiers on their own as well
            if let Some(Y::Mapping(det)) = v.get("detection") {
                for (_, idv) in det {
                    if let Err(p) = guarded(|| parse_identifier(idv).is_ok()) {
                        return Outcome::Violation(format!("parse_identifier panicked: {p}"));
                    }
                    evals += 1;
                }
            }
        }
        "c04.file" => {
            // Rule::load: the text arrives as the bytes of a file (hex in the case so that invalid
            // UTF-8 survives the replay file)
            let bytes = match hex_decode(&text) {
                Some(b) => b,
                None => return Outcome::Skip("bad hex".into()),
            };
            let dir = verif_root().join("harness").join("target").join("c04_files");
            let _ = std::fs::create_dir_all(&dir);
            let path = dir.join(format!("{}-{}.yml", std::process::id(), hash_str(&format!("{:?}", std::thread::current().id()))));
            if std::fs::write(&path, &bytes).is_err() {
                return Outcome::Skip("cannot write scratch file".into());
            }
            let via_file = guarded(|| tau_engine::Rule::load(&path));
            let _ = std::fs::remove_file(&path);
            evals += 1;
            let via_file = match via_file {
                Ok(r) => r,
                Err(p) => return Outcome::Violation(format!("Rule::load panicked on a file of {} bytes: {p}", bytes.len())),
            };
            // a path that does not exist and a path that is a directory are errors, not panics
            for odd in [dir.join("does-not-exist").join("x.yml"), dir.clone()] {
                match guarded(|| tau_engine::Rule::load(&odd).is_ok()) {
                    Ok(false) => {}
                    Ok(true) => return Outcome::Violation(format!("Rule::load({}) returned a rule", odd.display())),
                    Err(p) => return Outcome::Violation(format!("Rule::load({}) panicked: {p}", odd.display())),
                }
                evals += 1;
            }
            match std::str::from_utf8(&bytes) {
                Ok(s) => {
                    labels.push("file_is_utf8");
                    let via_text = match engine::load_text(s) {
                        Load::Ok(r) => Some(r),
                        Load::Rejected(_) => None,
                        Load::Panicked(p) => return Outcome::Violation(format!("Rule::from_str panicked: {p}")),
                    };
                    evals += 1;
                    match (&via_file, &via_text) {
                        (Ok(a), Some(b)) => {
                            accepted = true;
                            let (ya, yb) = (serde_yaml::to_string(a).unwrap_or_default(), serde_yaml::to_string(b).unwrap_or_default());
                            if serde_yaml::from_str::<Y>(&ya).ok() != serde_yaml::from_str::<Y>(&yb).ok() {
                                return Outcome::Violation(format!("Rule::load and Rule::from_str give different rules for the same text:\n{ya}\nvs\n{yb}"));
                            }
                        }
                        (Err(_), None) => {}
                        (Ok(_), None) => return Outcome::Violation("Rule::load accepts a file whose text Rule::from_str rejects".into()),
                        (Err(e), Some(_)) => return Outcome::Violation(format!("Rule::load rejects ({e}) a file whose text Rule::from_str accepts")),
                    }
                }
                Err(_) => {
                    labels.push("file_is_not_utf8");
                    accepted = via_file.is_ok();
                }
            }
        }
        "c04.huge" => {
            let rule = match huge_rule(&text) {
                Some(r) => r,
                None => return Outcome::Skip("unknown descriptor".into()),
            };
            match engine::load_text(&rule) {
                Load::Ok(_) => accepted = true,
                Load::Rejected(_) => {}
                Load::Panicked(p) => return Outcome::Violation(format!("Rule::from_str panicked on the rule `{text}`: {p}")),
            }
            evals += 1;
            labels.push("huge_pattern_text");
        }
        "c04.fuzz_artifact" => {
            // the saved libFuzzer input is the reproducible unit: run the target binary on it
            let target = case.extra.get("target").and_then(|t| t.as_str()).unwrap_or("load_text");
            let artifact = case.extra.get("artifact").and_then(|t| t.as_str()).unwrap_or("");
            let bin = verif_root()
                .join("harness/fuzz/target/x86_64-unknown-linux-gnu/release")
                .join(target);
            if !bin.exists() || !std::path::Path::new(artifact).exists() {
                return Outcome::Skip("fuzz binary or artifact not present".into());
            }
            return match std::process::Command::new(&bin).arg(artifact).output() {
                Ok(o) if !o.status.success() => Outcome::Violation(format!(
                    "libFuzzer target {target} fails on {artifact}: {}",
                    String::from_utf8_lossy(&o.stderr).lines().filter(|l| l.contains("panicked") || l.contains("ERROR")).take(3).collect::<Vec<_>>().join(" | ")
                )),
                Ok(_) => Outcome::Pass { nontrivial: None, evaluations: 1, labels: vec!["fuzz_artifact_passes"] },
                Err(e) => Outcome::Skip(format!("cannot run fuzz binary: {e}")),
            };
        }
        _ => return Outcome::Skip("unknown kind".into()),
    }
    labels.push(if accepted { "some_variant_accepted" } else { "all_variants_rejected" });
    Outcome::Pass {
        nontrivial: Some(hash_str(&format!("{}|{}|{}", case.kind, shape_sig(&text), accepted))),
        evaluations: evals,
        labels,
    }
}

/// Rules whose pattern text is too large for one dense automaton (aho-corasick limits a DFA to
/// 2^31 transitions; > 128 distinct byte values give a stride of 256, so 2^23 bytes of needles
/// overflow it). The descriptor `form:bytes` keeps replay files small.
pub fn huge_rule(desc: &str) -> Option<String> {
    let (form, bytes) = desc.split_once(':')?;
    let bytes: usize = bytes.parse().ok()?;
    if bytes > (1 << 25) {
        return None;
    }
    let body = |len: usize, salt: char| -> String {
        let mut alphabet = String::new();
        for c in (0x21u32..0x7f).chain(0xa1..0x17f) {
            let ch = char::from_u32(c).unwrap();
            if ch != '\'' && ch != '*' && ch != '"' && ch != '\\' {
                alphabet.push(ch);
            }
        }
        let mut s = String::new();
        s.push(salt);
        while s.len() < len {
            s.push_str(&alphabet);
        }
        s
    };
    let wrap = |ident: String| format!("detection:\n  A:\n{ident}  condition: A\ntrue_positives: []\ntrue_negatives: []\n");
    Some(match form {
        // one list: the needles share an automaton at load time
        "list" => wrap(format!("    foo:\n    - '*{}*'\n    - '*x*'\n", body(bytes, 'a'))),
        "all_list" => wrap(format!("    all(foo):\n    - '*{}*'\n    - '*x*'\n", body(bytes, 'a'))),
        "ci_single" => wrap(format!("    foo: 'i*{}*'\n", body(bytes, 'a'))),
        // two entries that load as plain searches and are merged by shake
        "two_entries" => wrap(format!("  - foo: '*{}*'\n  - foo: '*{}*'\n", body(bytes / 2, 'a'), body(bytes / 2, 'b'))),
        _ => return None,
    })
}

fn hex_encode(b: &[u8]) -> String {
    b.iter().map(|x| format!("{x:02x}")).collect()
}

fn hex_decode(s: &str) -> Option<Vec<u8>> {
    if s.len() % 2 != 0 || !s.is_ascii() {
        return None;
    }
    (0..s.len()).step_by(2).map(|i| u8::from_str_radix(&s[i..i + 2], 16).ok()).collect()
}

fn text_case(kind: &str, text: String) -> Case {
    let mut c = Case::new(kind);
    c.texts = vec![text];
    c
}

// ---------------------------------------------------------------------------------------------
// Generators
// ---------------------------------------------------------------------------------------------

fn all_strings(alphabet: &[char], max_len: usize) -> Vec<String> {
    let mut out = vec![String::new()];
    let mut layer = vec![String::new()];
    for _ in 0..max_len {
        let mut next = Vec::with_capacity(layer.len() * alphabet.len());
        for s in &layer {
            for c in alphabet {
                let mut t = s.clone();
                t.push(*c);
                next.push(t);
            }
        }
        out.extend(next.iter().cloned());
        layer = next;
    }
    out
}

fn degenerate() -> Vec<String> {
    let mut v: Vec<String> = [
        "\"", "'", "i\"", "i'", "-", "*", "?", "i", "i*", "i?", "i-", "**", "i**", "***", "\"\"", "''", "\"'", "'\"",
        "i\"\"", ">", ">=", "<", "<=", "=", "=-", "=.", ">.", "<=1.2.3", "=1e5", "=+5", "=-0", "=١", "..", "1.2.3", ".",
        "-.", "1-", "-1", "- 1", "and", "and ", " and", "or", "or ", "not", "not ", "not(", "all(", "of(", "int(", "flt(",
        "str(", "string(", "all()", "of()", "of(,)", "of(A)", "of(A,)", "of(A,,1)", "of(A, 1", "all(A", "(", ")", "()",
        ")(", "((", "(()", "A)", "(A", "A and", "and A", "A and and B", "A or or", "not not", "A not B", "A == B",
        "==", "= =", "A =", "A = 1", "1 == 1", "1 ==", "== 1", "é", "éand ", "andé", "and é", "aé and b", "é(", "int(é)",
        "int(a)é", "stringé(", "A\u{a0}and B", "A\tand\tB", "A\nand\nB", "A and\u{0}B", "\u{feff}A", "#", "#a", "a#",
        "[", "]", "a[", "a[0", "a]0[", "a..b", ".a", "a.", "a[99999999999999999999]", "ａｎｄ", "ⅷ", "٣", "1٣", "٣ == int(a)",
        "9223372036854775808", "99999999999999999999999999", "1e309", "0.0000000000000000000000000000000000000001",
        "of(A, 99999999999999999999)", "of(A, 1.5)", "of(A, -1)", "of(A, 1) of(A, 1)", "all(all(A))", "int(int(a))",
        "not(not(a))", "str(a) == str(b) == str(c)", "int(a) == 1 == 1", "int(a) > flt(b)", "flt(a) == 1", "int(a) == 1.0",
    ]
    .iter()
    .map(|s| s.to_string())
    .collect();
    v.push("1".repeat(300));
    v.push(format!("{}.{}", "9".repeat(200), "9".repeat(200)));
    v.push(format!("{}A{}", "(".repeat(64), ")".repeat(64)));
    v.push(format!("{}A", "(".repeat(64)));
    v.push(format!("A{}", ")".repeat(64)));
    v.push(format!("{}A", "not ".repeat(64)));
    v.push((0..64).map(|_| "A").collect::<Vec<_>>().join(" and "));
    v.push((0..64).map(|_| "(A or B)").collect::<Vec<_>>().join(" and "));
    v.push("a".repeat(4096));
    // long texts whose bytes do not fall on character boundaries at round offsets
    v.push("é".repeat(400));
    v.push(format!("a{}", "é".repeat(400)));
    v.push(format!("{}日本", "ab".repeat(255)));
    v.push(format!("aa{}", "日".repeat(300)));
    v.push("١٢٣".repeat(100));
    v.push("1²".to_string());
    v.push("of(A, 1²)".to_string());
    v.push("int(a) == -٣".to_string());
    v.push("-٣".to_string());
    v.push("2²".to_string());
    // a complete expression followed by left-over tokens whose rendering is long and multi-byte
    for off in 0..4usize {
        v.push(format!("A) {}{}", "a".repeat(off), "répété ".repeat(40)));
        v.push(format!("count) {}{}", "a".repeat(off), "日本語 ".repeat(30)));
        v.push(format!("A) int(f{}{}) == 1", "a".repeat(off), "日本語".repeat(40)));
        v.push(format!("(A)) {}{}", "a".repeat(off), "é".repeat(300)));
    }
    v.push("?".to_string() + &"(a*)*".repeat(40));
    v.push("?".to_string() + &"a{1000}".repeat(4));
    v.push("?(".to_string());
    v.push("?[".to_string());
    v.push("?\\".to_string());
    v.push("i?(?i)(".to_string());
    v.push("*".repeat(100));
    for body in ["\u{212a}", "\u{130}", "\u{23a}", "\u{1e9e}", "\u{212a}elvin", "a\u{130}b"] {
        for form in ["i{}", "i{}*", "i*{}", "i*{}*", "i\"{}\"", "i'{}'", "{}*", "*{}*"] {
            v.push(form.replace("{}", body));
        }
    }
    v.push("?\\w{100}".to_string());
    v.push("?\\w{300}".to_string());
    v.push("?[a-z]{2000}".to_string());
    v.push("?(\\pL{50}){20}".to_string());
    v
}

fn arbitrary_text() -> BoxedStrategy<String> {
    prop_oneof![
        3 => "[aiAnodtr*?\"'<>=\\-.1( ),]{0,12}",
        2 => "\\PC{0,16}",
        2 => "[ -~]{0,24}",
        1 => "[ -~éß日\u{0}\t\n]{0,40}",
        1 => "[\\x00-\\x20A-C(),=<>]{0,8}",
    ]
    .boxed()
}

fn yaml_leaf() -> BoxedStrategy<Y> {
    prop_oneof![
        Just(Y::Null),
        any::<bool>().prop_map(Y::Bool),
        any::<i64>().prop_map(|i| Y::Number(i.into())),
        any::<u64>().prop_map(|i| Y::Number(i.into())),
        prop::sample::select(vec![0.5f64, -0.0, f64::NAN, f64::INFINITY, f64::NEG_INFINITY, 1e300, 1.0]).prop_map(|f| Y::Number(f.into())),
        prop::sample::select(vec![
            "a", "*a*", "?a", "?(", "\"", "i'", ">=1", ">=x", "=1.5", "", "A", "A and B", "condition", "detection", "all(f1)",
            "of(f1, 2)", "not(f1)", "int(f1)", "str(f1)", "flt(f1)", "f1", "true_positives", "1", "true", "null", "~",
        ])
        .prop_map(|s| Y::String(s.to_string())),
        arbitrary_text().prop_map(Y::String),
    ]
    .boxed()
}

fn yaml_tree() -> BoxedStrategy<Y> {
    yaml_leaf()
        .prop_recursive(5, 40, 5, |inner| {
            prop_oneof![
                3 => prop::collection::vec(inner.clone(), 0..=4).prop_map(Y::Sequence),
                4 => prop::collection::vec((yaml_leaf(), inner.clone()), 0..=4).prop_map(|kvs| {
                    let mut m = serde_yaml::Mapping::new();
                    for (k, v) in kvs {
                        m.insert(k, v);
                    }
                    Y::Mapping(m)
                }),
                1 => inner.clone().prop_map(|v| Y::Tagged(Box::new(serde_yaml::value::TaggedValue {
                    tag: serde_yaml::value::Tag::new("tag"),
                    value: v
                }))),
            ]
        })
        .boxed()
}

fn count_nodes(v: &Y) -> usize {
    1 + match v {
        Y::Sequence(s) => s.iter().map(count_nodes).sum(),
        Y::Mapping(m) => m.iter().map(|(_, v)| count_nodes(v)).sum(),
        _ => 0,
    }
}

fn replace_node(v: &mut Y, target: &mut usize, with: &Y) -> bool {
    if *target == 0 {
        *v = with.clone();
        return true;
    }
    *target -= 1;
    match v {
        Y::Sequence(s) => {
            for x in s.iter_mut() {
                if replace_node(x, target, with) {
                    return true;
                }
            }
            false
        }
        Y::Mapping(m) => {
            for (_, x) in m.iter_mut() {
                if replace_node(x, target, with) {
                    return true;
                }
            }
            false
        }
        _ => false,
    }
}

fn deep_yaml(depth: usize, kind: u8) -> Y {
    let mut v = Y::String("a".into());
    for _ in 0..depth {
        v = match kind % 3 {
            0 => {
                let mut m = serde_yaml::Mapping::new();
                m.insert("x".into(), v);
                Y::Mapping(m)
            }
            1 => Y::Sequence(vec![v]),
            _ => {
                let mut m = serde_yaml::Mapping::new();
                m.insert("x".into(), Y::Sequence(vec![v]));
                Y::Mapping(m)
            }
        };
    }
    v
}

pub fn run(tier: &str, seed: u64) -> i32 {
    let mut report = Report::new(ID, tier, seed);
    start_watchdog(seed, tier.to_string());
    report.rule = "exhaustive part: every string of length <= 4 (quick: 3 for the pattern role, 4 for condition and key) \
        over the 14 symbols `a i * ? \" ' > < = - . 1 ( space` in each of three roles - condition, pattern value \
        (alone and in lists of 1-4 under the key modifiers none/not/str/int/flt/all/of), mapping key; ~170 \
        hand-written degenerate strings (lone quote/minus/star, keyword fragments, multi-byte characters next to \
        keywords, unbalanced and 64-deep parentheses, 300-digit numbers, pathological regexes) in all roles, plus \
        8 MiB pattern lists that exceed the state limit of one dense automaton; sampled \
        part: random printable / unicode strings in all roles and as whole rule text, arbitrary YAML value trees \
        (every scalar kind, sequences, mappings with non-string keys, tags, depth <= 5) as whole rule and substituted \
        into a random position of a valid rule, nesting 1..64 deep. Each input goes through String::tokenise, \
        into_identifier, parse_identifier, Rule::from_str and Rule::from_value as applicable; a further stream writes rule texts - intact, or damaged at the byte level (truncation inside a character, stray bytes, byte order mark, CRLF) - and arbitrary bytes to a file and loads them with Rule::load, which must not panic, must agree with Rule::from_str whenever the bytes are UTF-8, and must return an error for a missing path or a directory. Oracle: returns Ok or \
        Err without panic or overflow (overflow checks are compiled in) and within the 20 s watchdog. The degenerate \
        corpus includes long multi-byte texts, non-ASCII digits and wrong-shaped identifier blocks whose rendering is \
        long. Non-trivial: \
        every input reaches its layer; distinct by (role, character-class shape of the first 12 characters, accepted)."
        .into();
    report.assumptions = vec!["native stack exhaustion beyond nesting depth 64 is out of scope".into()];
    let findings = load_findings();
    replay_findings(&mut report, &findings, &judge);

    // exhaustive + degenerate
    let alphabet = ['a', 'i', '*', '?', '"', '\'', '>', '<', '=', '-', '.', '1', '(', ' '];
    let mut cases: Vec<Case> = vec![];
    let l4 = all_strings(&alphabet, 4);
    let lp = if tier == "thorough" { l4.clone() } else { all_strings(&alphabet, 3) };
    for s in &l4 {
        cases.push(text_case("c04.condition", s.clone()));
        cases.push(text_case("c04.key", s.clone()));
    }
    for s in &lp {
        cases.push(text_case("c04.pattern", s.clone()));
    }
    for s in degenerate() {
        for k in ["c04.condition", "c04.key", "c04.pattern", "c04.text"] {
            cases.push(text_case(k, s.clone()));
        }
    }
    for d in (1..=64).step_by(3) {
        for kind in 0..3u8 {
            let v = deep_yaml(d, kind);
            let rule = fixed_rule("A", "f1", &v);
            cases.push(text_case("c04.yaml", serde_yaml::to_string(&rule).unwrap()));
            let mut m = serde_yaml::Mapping::new();
            m.insert("detection".into(), v.clone());
            cases.push(text_case("c04.yaml", serde_yaml::to_string(&Y::Mapping(m)).unwrap()));
        }
    }
    // identifier blocks of the wrong shape whose rendering is long and multi-byte (error messages
    // that quote the block must not cut it inside a character)
    for fill in ["é", "日", "aé", "ab"] {
        for n in [100usize, 255, 256, 257, 400] {
            for off in 0..3usize {
                let long = format!("{}{}", "a".repeat(off), fill.repeat(n));
                let shapes: Vec<Y> = vec![
                    Y::String(long.clone()),
                    Y::Sequence(vec![Y::String(long.clone())]),
                    Y::Sequence(
                        (0..60)
                            .map(|i| {
                                let mut m = serde_yaml::Mapping::new();
                                m.insert(Y::String(format!("k{i}")), Y::String(fill.repeat(3)));
                                Y::Mapping(m)
                            })
                            .chain(std::iter::once(Y::String(long.clone())))
                            .collect(),
                    ),
                    Y::Sequence(vec![]),
                    Y::Number(1.into()),
                ];
                for shape in shapes {
                    let mut det = serde_yaml::Mapping::new();
                    det.insert("A".into(), shape);
                    det.insert("condition".into(), Y::String("A".into()));
                    let mut m = serde_yaml::Mapping::new();
                    m.insert("detection".into(), Y::Mapping(det));
                    m.insert("true_positives".into(), Y::Sequence(vec![]));
                    m.insert("true_negatives".into(), Y::Sequence(vec![]));
                    cases.push(text_case("c04.yaml", serde_yaml::to_string(&Y::Mapping(m)).unwrap()));
                }
            }
        }
    }
    // pattern text beyond what one dense automaton can hold (just above the limit, so that the
    // build fails before anything large is allocated)
    for desc in ["list:8389632", "all_list:8389632", "ci_single:8389632", "two_entries:8391680", "list:65536"] {
        cases.push(text_case("c04.huge", desc.to_string()));
    }
    report.label_n("exhaustive_and_degenerate_cases", cases.len() as u64);
    let subs: Vec<Report> = par_run(|w, n| {
        let mut sub = report.sub();
        for (i, c) in cases.iter().enumerate() {
            if i % n != w {
                continue;
            }
            let out = judge(c);
            sub.record(c, out);
        }
        sub
    });
    for s in subs {
        report.merge(s);
    }

    // sampled
    let n = if tier == "thorough" { 1_000_000 } else { 40_000 };
    gen::drive(
        &mut report,
        30,
        n / 2,
        || (arbitrary_text(), 0u8..4),
        |(t, role): &(String, u8)| {
            let kind = ["c04.condition", "c04.key", "c04.pattern", "c04.text"][*role as usize];
            vec![text_case(kind, t.clone())]
        },
        judge,
        |_, rep| rep.label("random_text"),
    );
    gen::drive(
        &mut report,
        31,
        n / 2,
        || (gen::rule(gen::RuleOpts::default()), yaml_tree(), any::<u16>(), any::<bool>()),
        |(rule, tree, pos, whole): &(RuleSpec, Y, u16, bool)| {
            let v = if *whole || !rule.well_formed() {
                tree.clone()
            } else {
                let mut m = serde_yaml::Mapping::new();
                m.insert("detection".into(), rule.detection_yaml());
                m.insert("true_positives".into(), Y::Sequence(vec![]));
                m.insert("true_negatives".into(), Y::Sequence(vec![]));
                let mut v = Y::Mapping(m);
                let n = count_nodes(&v);
                let mut target = (*pos as usize * n) >> 16;
                replace_node(&mut v, &mut target, tree);
                v
            };
            match serde_yaml::to_string(&v) {
                Ok(t) => vec![text_case("c04.yaml", t)],
                Err(_) => vec![],
            }
        },
        judge,
        |_, rep| rep.label("yaml_shape"),
    );
    // Rule::load: the same texts (and texts damaged at the byte level) arriving as files
    gen::drive(
        &mut report,
        32,
        n / 20,
        || {
            (
                gen::rule(gen::RuleOpts::default()),
                prop_oneof![
                    4 => Just(Vec::<u8>::new()),
                    1 => proptest::collection::vec(any::<u8>(), 0..48),
                    1 => arbitrary_text().prop_map(|t| t.into_bytes()),
                ],
                proptest::collection::vec((any::<u16>(), any::<u8>(), 0u8..5), 0..3),
            )
        },
        |(rule, raw, edits): &(RuleSpec, Vec<u8>, Vec<(u16, u8, u8)>)| {
            let mut bytes = if raw.is_empty() && rule.well_formed() {
                engine::rule_text(&rule.detection_yaml(), &[], &[]).into_bytes()
            } else {
                raw.clone()
            };
            for (pos, byte, how) in edits {
                let at = (*pos as usize * (bytes.len() + 1)) >> 16;
                match how {
                    0 => bytes.truncate(at),
                    1 => {
                        if at < bytes.len() {
                            bytes[at] = *byte
                        }
                    }
                    2 => bytes.insert(at, *byte),
                    3 => {
                        // byte order mark / a multi-byte character cut short
                        let ins: &[u8] = if byte % 2 == 0 { &[0xef, 0xbb, 0xbf] } else { &[0xe6, 0x97] };
                        for (k, b) in ins.iter().enumerate() {
                            bytes.insert((at + k).min(bytes.len()), *b);
                        }
                    }
                    _ => {
                        // carriage returns before every line feed
                        let mut out = Vec::with_capacity(bytes.len() + 16);
                        for b in &bytes {
                            if *b == b'\n' {
                                out.push(b'\r');
                            }
                            out.push(*b);
                        }
                        bytes = out;
                    }
                }
            }
            vec![text_case("c04.file", hex_encode(&bytes))]
        },
        judge,
        |_, rep| rep.label("file_bytes"),
    );
    // saved fuzz corpus / golden inputs (replay tier of the libFuzzer campaigns)
    let corpus = verif_root().join("harness").join("fuzz").join("golden");
    if let Ok(rd) = std::fs::read_dir(&corpus) {
        let mut files: Vec<_> = rd.filter_map(|e| e.ok()).map(|e| e.path()).collect();
        files.sort();
        for f in files {
            if let Ok(bytes) = std::fs::read(&f) {
                if let Ok(t) = String::from_utf8(bytes) {
                    let c = text_case("c04.text", t);
                    let out = judge(&c);
                    report.label("golden_fuzz_input");
                    report.record(&c, out);
                }
            }
        }
    }
    if tier == "thorough" {
        fuzz_campaign(&mut report, seed);
    }
    report.finish()
}

/// Thorough tier: a bounded libFuzzer campaign per target (cargo-fuzz, nightly). Crashes are
/// copied next to the replay files; an infrastructure failure is reported as a note, never as a
/// verdict.
fn fuzz_campaign(report: &mut Report, seed: u64) {
    let fuzz_dir = verif_root().join("harness").join("fuzz");
    if !fuzz_dir.join("Cargo.toml").exists() {
        report.notes.push("fuzz crate not present; libFuzzer campaign skipped".into());
        return;
    }
    let script = fuzz_dir.join("run_campaign.sh");
    let out = std::process::Command::new("bash")
        .arg(&script)
        .arg(seed.to_string())
        .arg(std::env::var("VERIF_FUZZ_SECS").unwrap_or_else(|_| "120".into()))
        .output();
    match out {
        Ok(o) => {
            let text = String::from_utf8_lossy(&o.stdout).to_string();
            for line in text.lines() {
                if let Some(path) = line.strip_prefix("CRASH ") {
                    let path = path.trim();
                    let target = std::path::Path::new(path)
                        .parent()
                        .and_then(|p| p.file_name())
                        .and_then(|n| n.to_str())
                        .unwrap_or("load_text")
                        .to_string();
                    let bytes = std::fs::read(path).unwrap_or_default();
                    // keep the artifact next to the replay files
                    let keep = verif_root().join("replays").join(ID);
                    let _ = std::fs::create_dir_all(&keep);
                    let kept = keep.join(format!("{target}-{}", std::path::Path::new(path).file_name().and_then(|n| n.to_str()).unwrap_or("artifact")));
                    let _ = std::fs::write(&kept, &bytes);
                    let mut c = Case::new("c04.fuzz_artifact");
                    c.texts = vec![String::from_utf8_lossy(&bytes).to_string()];
                    c.extra = serde_json::json!({"target": target, "artifact": kept.display().to_string()});
                    let out = judge(&c);
                    report.record(&c, out);
                } else if line.starts_with("FUZZ ") {
                    report.notes.push(line.to_string());
                    if let Some(n) = line.split("execs=").nth(1).and_then(|x| x.split_whitespace().next()).and_then(|x| x.parse::<u64>().ok()) {
                        report.evaluations += n;
                        report.label_n("libfuzzer_executions", n);
                    }
                }
            }
        }
        Err(e) => report.notes.push(format!("fuzz campaign could not start: {e}")),
    }
}
