//! C03 An accepted rule can always be evaluated (no panic after load).

use proptest::prelude::*;
use tau_engine::{AsValue, Document, Value};

use crate::common::*;
use crate::engine::{self, guarded, Load, Switches};
use crate::gen;
use crate::model::{DArr, DObj, DocVal};
use crate::reference::{self, BinOp, PTree};
use crate::spec::*;

pub const ID: &str = "C03";

/// A document that answers every key. `{"*": v}` answers v for every key; `{"#mix": n}` answers
/// a kind chosen by a hash of (key, n), so that different fields see different kinds.
pub struct AdvDoc {
    every: Option<DocVal>,
    mix: Option<u64>,
    palette: Vec<DocVal>,
    /// an ordinary document (no `*` / `#mix` descriptor): answered as it is
    plain: Option<DObj>,
}

pub fn adversarial_values() -> Vec<DocVal> {
    let deep = {
        let mut v = DocVal::s("a");
        for _ in 0..40 {
            v = DocVal::obj(vec![("x", v.clone()), ("p", DocVal::obj(vec![("q", DocVal::s("a"))]))]);
        }
        v
    };
    vec![
        DocVal::Null,
        DocVal::Bool(true),
        DocVal::Bool(false),
        DocVal::Int(i64::MIN),
        DocVal::Int(-1),
        DocVal::Int(i64::MAX),
        DocVal::UInt(0),
        DocVal::UInt(u64::MAX),
        DocVal::Float(f64::NAN),
        DocVal::Float(f64::INFINITY),
        DocVal::Float(f64::NEG_INFINITY),
        DocVal::Float(-0.0),
        DocVal::Float(1e300),
        DocVal::Float(0.5),
        DocVal::s(""),
        DocVal::s("a"),
        DocVal::s("ab"),
        DocVal::s("1"),
        DocVal::s("-9223372036854775809"),
        DocVal::s("1e999"),
        DocVal::Str("ab".repeat(32 * 1024)),
        DocVal::s("é\u{0}\u{10ffff}"),
        DocVal::arr(vec![]),
        DocVal::arr(vec![DocVal::obj(vec![])]),
        DocVal::arr(vec![DocVal::obj(vec![]), DocVal::Null, DocVal::s("a"), DocVal::Int(1), DocVal::arr(vec![])]),
        DocVal::arr(vec![DocVal::obj(vec![("x", DocVal::s("a")), ("y", DocVal::Int(1)), ("n", DocVal::Null)])]),
        DocVal::arr(vec![DocVal::Float(f64::NAN), DocVal::UInt(u64::MAX), DocVal::Bool(true)]),
        DocVal::obj(vec![]),
        DocVal::obj(vec![("x", DocVal::s("a")), ("y", DocVal::arr(vec![])), ("n", DocVal::Float(f64::NAN)), ("p", DocVal::obj(vec![("q", DocVal::Null)]))]),
        deep,
    ]
}

impl AdvDoc {
    pub fn from_dobj(d: &DObj) -> AdvDoc {
        let every = d.get_val("*").cloned();
        let mix = match d.get_val("#mix") {
            Some(DocVal::UInt(n)) => Some(*n),
            Some(DocVal::Int(n)) => Some(*n as u64),
            _ => None,
        };
        let plain = if every.is_none() && mix.is_none() && !d.0.is_empty() { Some(d.clone()) } else { None };
        AdvDoc { every, mix, palette: adversarial_values(), plain }
    }
}

impl Document for AdvDoc {
    fn find(&self, key: &str) -> Option<Value<'_>> {
        if let Some(v) = &self.every {
            return Some(v.as_value());
        }
        if let Some(n) = self.mix {
            let h = mix(hash_str(key), n);
            let i = (h % (self.palette.len() as u64 + 2)) as usize;
            return self.palette.get(i).map(|v| v.as_value());
        }
        if let Some(d) = &self.plain {
            return tau_engine::Object::find(d, key);
        }
        None
    }
}

pub fn adversarial_docs() -> Vec<DObj> {
    let mut out: Vec<DObj> = vec![DObj::default()];
    for v in adversarial_values() {
        out.push(DObj(vec![("*".to_string(), v)]));
    }
    for n in 0..12u64 {
        out.push(DObj(vec![("#mix".to_string(), DocVal::UInt(n))]));
    }
    out
}

/// Does the condition mention an unknown identifier, or apply and/or/not to a non-predicate?
/// Ok(None) = fine, Ok(Some(reason)) = must be rejected, Err = the reference cannot structure it.
fn condition_defect(text: &str) -> Result<Option<String>, ()> {
    let yaml: serde_yaml::Value = serde_yaml::from_str(text).map_err(|_| ())?;
    let det = yaml.get("detection").ok_or(())?;
    let cond = det.get("condition").and_then(|c| c.as_str()).ok_or(())?;
    let names: Vec<String> = match det {
        serde_yaml::Value::Mapping(m) => {
            m.keys().filter_map(|k| k.as_str()).filter(|k| *k != "condition").map(|k| k.to_string()).collect()
        }
        _ => return Err(()),
    };
    let tree = reference::parse_condition_tree(cond).map_err(|_| ())?;
    fn pred(t: &PTree) -> bool {
        matches!(t, PTree::Ident(_) | PTree::All(_) | PTree::Of(_, _) | PTree::Not(_) | PTree::Bin(_, _, _))
    }
    fn walk(t: &PTree, names: &[String]) -> Option<String> {
        match t {
            PTree::Ident(n) | PTree::All(n) | PTree::Of(n, _) => {
                if names.iter().any(|x| x == n) {
                    None
                } else {
                    Some(format!("identifier {n} does not exist"))
                }
            }
            PTree::Not(x) => {
                if !pred(x) {
                    return Some("operand of not is not a predicate".into());
                }
                walk(x, names)
            }
            PTree::Bin(l, BinOp::And, r) | PTree::Bin(l, BinOp::Or, r) => {
                if !pred(l) || !pred(r) {
                    return Some("operand of and/or is not a predicate".into());
                }
                walk(l, names).or_else(|| walk(r, names))
            }
            PTree::Bin(_, BinOp::Cmp(_), _) => None,
            _ => None,
        }
    }
    if !pred(&tree) {
        return Ok(Some("the condition is not a predicate".into()));
    }
    Ok(walk(&tree, &names))
}

pub fn judge(case: &Case) -> Outcome {
    // c03.huge: the rule text is built from a descriptor (see c04::huge_rule)
    let built;
    let text = if case.kind == "c03.huge" {
        built = match crate::checks::c04::huge_rule(case.texts.first().map(|s| s.as_str()).unwrap_or("")) {
            Some(t) => t,
            None => return Outcome::Skip("unknown descriptor".into()),
        };
        &built
    } else {
        &case.rules[0]
    };
    let rule = match engine::load_text(text) {
        Load::Ok(r) => r,
        Load::Rejected(_) => {
            return Outcome::Pass { nontrivial: None, evaluations: 1, labels: vec!["rejected_by_loader"] }
        }
        Load::Panicked(p) => return Outcome::Violation(format!("loader panicked: {p}")),
    };
    let mut labels = vec!["accepted_by_loader"];
    match condition_defect(text) {
        Ok(Some(why)) => {
            return Outcome::Violation(format!("the loader accepted a rule that must be rejected: {why}"));
        }
        Ok(None) => labels.push("condition_structured_by_reference"),
        Err(()) => labels.push("condition_not_structured_no_panic_only"),
    }
    let advs: Vec<AdvDoc> = case.docs.iter().map(AdvDoc::from_dobj).collect();
    let mut evals = 0;
    // validate() on the rule as loaded
    if let Err(p) = guarded(|| rule.validate().is_ok()) {
        return Outcome::Violation(format!("validate() panicked: {p}"));
    }
    for (i, d) in advs.iter().enumerate() {
        if let Err(p) = engine::matches(&rule, d) {
            return Outcome::Violation(format!("matches() panicked on adversarial doc #{i} {}: {p}", case.docs[i].show().chars().take(200).collect::<String>()));
        }
        evals += 1;
    }
    for sw in Switches::all() {
        let opt = match engine::optimise(&rule, sw) {
            Ok(o) => o,
            Err(p) => return Outcome::Violation(format!("optimise({}) panicked: {p}", sw.show())),
        };
        for (i, d) in advs.iter().enumerate() {
            if let Err(p) = engine::matches(&opt, d) {
                return Outcome::Violation(format!(
                    "matches() after optimise({}) panicked on adversarial doc #{i} {}: {p}",
                    sw.show(),
                    case.docs[i].show().chars().take(200).collect::<String>()
                ));
            }
            evals += 1;
        }
        if sw.bits() % 5 == 0 {
            if let Err(p) = guarded(|| opt.validate().is_ok()) {
                return Outcome::Violation(format!("validate() after optimise({}) panicked: {p}", sw.show()));
            }
        }
    }
    let edited = case.kind != "c03.valid";
    Outcome::Pass {
        nontrivial: if edited { Some(hash_str(if case.kind == "c03.huge" { &case.texts[0] } else { text })) } else { None },
        evaluations: evals,
        labels,
    }
}

// ---------------------------------------------------------------------------------------------
// Generators
// ---------------------------------------------------------------------------------------------

const SOUP: &[&str] = &[
    "A", "B", "C", "missing", "and", "or", "not", "all(A)", "all(B)", "of(B, 1)", "of(A, 0)", "of(C, 2)", "of(A,",
    "int(n1)", "flt(n1)", "str(f1)", "string(f1)", "not(f1)", "int(A)", "(", ")", "==", ">", ">=", "<", "<=", "1",
    "2.5", "0", ",", "int(", "all(", "A)", "all(missing)", "of(missing, 1)", "str(f2)", "int(n2)", "flt(n2)", "5",
    "1.0", "android", "not(A)", "all(n1)", "of(A, 9223372036854775807)", "of(B, 1001)", "of(C, 64)", "of(A, 99999999999999999999)",
    "9223372036854775807", "int(n1) == 9223372036854775807", "1.7976931348623157e308", "0.0", "of(A, 1.5)", "of(A, -1)",
];

fn soup_condition() -> BoxedStrategy<String> {
    // weights biased to almost-valid strings: alternate operand / operator most of the time
    let operand = prop::sample::select(vec![
        "A", "B", "C", "all(A)", "of(B, 1)", "of(A, 0)", "int(n1) == 1", "flt(n1) > 2.5", "str(f1) == str(f2)",
        "(A or B)", "not A", "not (A and B)", "1", "int(n1)", "2.5", "missing", "not(f1)", "int(n1) > int(n2)",
        "1 == int(n1)", "all(missing)", "str(f1)", "1 == 1", "(", ")", "not", "int(A) == 1", "not 1", "not int(n1)",
        "not (int(n1) == 1)", "not not A", "all(A) == 1", "A == 1", "(1)", "(int(n1))", "((A))", "()",
        "of(A, 9223372036854775807)", "of(B, 1001)", "of(C, 64)", "of(C, 3)", "int(n1) == int(n2)", "flt(n1) <= flt(f1)",
        "int(f1) == 9223372036854775807",
        // undefined identifiers that are spelled like the fields the casts name
        "n1", "f1", "n2", "not n1", "(f2)", "all(n1)", "of(f1, 1)",
    ]);
    let operator = prop::sample::select(vec!["and", "or", "and", "or", "==", ">", "and not", "or not", "", ","]);
    let structured = (operand.clone(), prop::collection::vec((operator, operand), 0..=4)).prop_map(|(first, rest)| {
        let mut s = first.to_string();
        for (op, x) in rest {
            s.push(' ');
            if !op.is_empty() {
                s.push_str(op);
                s.push(' ');
            }
            s.push_str(x);
        }
        s
    });
    let soup = prop::collection::vec(prop::sample::select(SOUP.to_vec()), 1..=8).prop_map(|v| v.join(" "));
    let glued = prop::collection::vec(prop::sample::select(SOUP.to_vec()), 1..=5).prop_map(|v| v.join(""));
    prop_oneof![6 => structured, 3 => soup, 1 => glued].boxed()
}

fn soup_rule(cond: &str, tps: &[serde_yaml::Value], tns: &[serde_yaml::Value]) -> String {
    let det: serde_yaml::Value = serde_yaml::from_str(
        "A:\n  f1: a\n  n1: 1\nB:\n- f1: '*b*'\n- f2: ['?a', ib]\nC:\n  all(f1): ['*a*', '*b*']\n  o1:\n    x: a\nandroid:\n  f2: b\n",
    )
    .unwrap();
    let mut m = match det {
        serde_yaml::Value::Mapping(m) => m,
        _ => unreachable!(),
    };
    m.insert("condition".into(), serde_yaml::Value::String(cond.to_string()));
    engine::rule_text(&serde_yaml::Value::Mapping(m), tps, tns)
}

fn example_lists() -> BoxedStrategy<(Vec<serde_yaml::Value>, Vec<serde_yaml::Value>)> {
    let entry = prop_oneof![
        6 => gen::doc_object(1).prop_map(|o| o.normalised().to_yaml_mapping()).prop_map(serde_yaml::Value::Mapping),
        1 => Just(serde_yaml::Value::Null),
        1 => Just(serde_yaml::Value::Number(1.into())),
        1 => Just(serde_yaml::Value::String("x".into())),
        1 => Just(serde_yaml::Value::Sequence(vec![serde_yaml::Value::Bool(true)])),
        1 => Just(serde_yaml::Value::Bool(false)),
    ];
    (prop::collection::vec(entry.clone(), 0..=3), prop::collection::vec(entry, 0..=3)).boxed()
}

fn random_val() -> BoxedStrategy<ValSpec> {
    prop_oneof![
        gen::string_pattern().prop_map(ValSpec::Str),
        gen::int_pattern().prop_map(ValSpec::Str),
        gen::float_pattern().prop_map(ValSpec::Str),
        gen::small_int().prop_map(ValSpec::Int),
        gen::small_float().prop_map(ValSpec::Float),
        any::<bool>().prop_map(ValSpec::Bool),
        Just(ValSpec::Null),
        gen::block(0, true).prop_map(ValSpec::Block),
        prop::collection::vec(
            prop_oneof![
                gen::string_pattern().prop_map(ValSpec::Str),
                gen::small_int().prop_map(ValSpec::Int),
                any::<bool>().prop_map(ValSpec::Bool),
                Just(ValSpec::Null),
                gen::small_float().prop_map(ValSpec::Float),
                gen::block(0, true).prop_map(ValSpec::Block),
            ],
            0..=3
        )
        .prop_map(ValSpec::List),
    ]
    .boxed()
}

/// Apply one edit to a valid rule: replace the value or the modifier of one entry.
fn edit_rule(rule: &RuleSpec, which: u16, new_val: &ValSpec, new_mod: u8, edit_kind: u8) -> RuleSpec {
    let mut r = rule.clone();
    let mut entries: Vec<&mut Entry> = vec![];
    for (_, b) in r.idents.iter_mut() {
        for bl in b.blocks_mut() {
            for e in bl.0.iter_mut() {
                entries.push(e);
            }
        }
    }
    if entries.is_empty() {
        return r;
    }
    let n = entries.len();
    let e = &mut entries[(which as usize * n) >> 16];
    if edit_kind % 2 == 0 {
        e.val = new_val.clone();
    } else {
        e.key.modifier = match new_mod % 7 {
            0 => KMod::None,
            1 => KMod::All,
            2 => KMod::Of((new_mod / 7) as u64 % 4),
            3 => KMod::Not,
            4 => KMod::Int,
            5 => KMod::Flt,
            _ => KMod::Str,
        };
    }
    r
}

fn edit_condition(cond: &str, pos: u16, kind: u8) -> String {
    let toks: Vec<&str> = cond.split(' ').collect();
    if toks.is_empty() {
        return cond.to_string();
    }
    let i = (pos as usize * toks.len()) >> 16;
    let mut t: Vec<String> = toks.iter().map(|s| s.to_string()).collect();
    match kind % 6 {
        0 => {
            t.remove(i);
        }
        1 => {
            let x = t[i].clone();
            t.insert(i, x);
        }
        2 => {
            if i + 1 < t.len() {
                t.swap(i, i + 1);
            }
        }
        3 => t[i] = "1".into(),
        4 => t[i] = "int(n1)".into(),
        _ => t[i] = "nosuch".into(),
    }
    t.join(" ")
}

pub fn run(tier: &str, seed: u64) -> i32 {
    let mut report = Report::new(ID, tier, seed);
    report.rule = "three sources of rule texts: (a) conditions assembled from a token vocabulary biased to almost-valid \
        strings over a fixed identifier set, (b) grammar-G rules with one random edit (an entry's value or key \
        modifier replaced regardless of compatibility, or a condition token dropped / duplicated / swapped / replaced \
        by a literal, cast or unknown name), (c) unedited G rules; each with generated true_positives / \
        true_negatives lists that include non-mapping entries. Every text the loader accepts is optimised with all 16 \
        switch sets, matched against 43 adversarial documents (a Document that answers every key with one value - \
        every kind, 64-bit extremes, NaN/inf, empty and 64 KiB strings, empty arrays, arrays of empty objects, 40-deep \
        objects - or with a per-key pseudo-random kind), and validate()d. Oracle: no panic; and an accepted \
        condition, when the reference parser can structure it, mentions only existing identifiers and applies \
        and/or/not only to predicates. Also wide or-groups (127-300 mappings / distinct fields) against documents that \
        hit the far matrix columns, 8 MiB pattern lists beyond the state limit of one automaton, single regexes close to \
        the size limit next to plain members, and undefined identifiers spelled like the fields of casts. Non-trivial: accepted by the loader and not an unedited G rule; distinct by \
        rule text."
        .into();
    report.assumptions = vec!["conditions the reference parser cannot structure (e.g. unbalanced parentheses tolerated by the engine) are checked for no-panic only".into()];
    let findings = load_findings();
    replay_findings(&mut report, &findings, &judge);
    let adv = adversarial_docs();
    let n = if tier == "thorough" { 300_000 } else { 9_000 };

    // field-to-field comparisons (only the condition can express them) and-ed into groups that sit
    // inside or-groups sharing their fields: whatever the optimiser builds from them must be solvable
    for (idents, cond) in [
        ("  A:\n    c: x\n    d: y\n  B:\n  - a: 1\n    c: x\n  - a: 2\n    d: y\n", "(int(a) == int(b) and A) or B"),
        ("  A:\n    c: x\n    d: y\n  B:\n  - a: 1\n    c: x\n  - a: 2\n    d: y\n", "B or (A and flt(a) <= flt(b))"),
        ("  A:\n    c: x\n  B:\n  - a: '1'\n    c: x\n  - a: '2'\n    c: z\n", "(str(a) == str(b) and A and int(a) > 0) or B or A"),
        ("  A:\n    a: 1\n    c: x\n  B:\n    a: 2\n    c: x\n", "(A and int(a) < int(c)) or (B and int(c) >= int(a)) or A"),
    ] {
        let mut c = Case::new("c03.valid");
        c.rules = vec![format!("detection:\n{idents}  condition: {cond}\ntrue_positives: []\ntrue_negatives: []\n")];
        c.docs = vec![
            DObj(vec![("a".to_string(), DocVal::Int(1)), ("b".to_string(), DocVal::Int(1)), ("c".to_string(), DocVal::s("x")), ("d".to_string(), DocVal::s("y"))]),
            DObj(vec![("a".to_string(), DocVal::Int(3)), ("b".to_string(), DocVal::Int(3)), ("c".to_string(), DocVal::s("x")), ("d".to_string(), DocVal::s("y"))]),
            DObj(vec![("a".to_string(), DocVal::s("1")), ("b".to_string(), DocVal::s("1")), ("c".to_string(), DocVal::s("x"))]),
            DObj(vec![("a".to_string(), DocVal::Int(3)), ("c".to_string(), DocVal::s("x")), ("d".to_string(), DocVal::s("y"))]),
            DObj(vec![("c".to_string(), DocVal::s("x")), ("d".to_string(), DocVal::s("y"))]),
        ];
        let out = judge(&c);
        report.label("field_to_field_comparison_in_groups");
        report.record(&c, out);
    }
    // a single regex close to the regex crate's size limit next to other members (whatever limit
    // the loader compiles it with, the optimiser has to cope with what was loaded)
    for body in [
        "    f1: [svchost, '?^\\w{300}$']\n",
        "    f1: ['?^\\w{250}$', 'i?^a\\w{80}$']\n",
        "  - f1: '?\\pL{150}'\n  - f1: svc*\n  - f1: '*host'\n",
        "    f1: ['i?\\w{200}x', '*a*', 'ib*']\n",
    ] {
        let mut c = Case::new("c03.valid");
        c.rules = vec![format!("detection:\n  A:\n{body}  condition: A\ntrue_positives: []\ntrue_negatives: []\n")];
        c.docs = vec![DObj(vec![("f1".to_string(), DocVal::s("svchost"))]), DObj(vec![("f1".to_string(), DocVal::Str("a".repeat(300)))])];
        let out = judge(&c);
        report.label("large_single_regex");
        report.record(&c, out);
    }
    // pattern text that loads as separate searches but is too large for the one automaton shake
    // would merge it into
    for desc in ["two_entries:8391680", "two_entries:65536"] {
        let mut c = Case::new("c03.huge");
        c.texts = vec![desc.to_string()];
        c.docs = vec![crate::model::DObj(vec![("foo".to_string(), crate::model::DocVal::s("xbx"))])];
        let out = judge(&c);
        report.label("huge_pattern_text");
        report.record(&c, out);
    }

    // (a) token soup
    let advc = adv.clone();
    gen::drive(
        &mut report,
        20,
        n / 3,
        || (soup_condition(), example_lists()),
        move |(cond, (tps, tns)): &(String, (Vec<serde_yaml::Value>, Vec<serde_yaml::Value>))| {
            let mut c = Case::new("c03.soup");
            c.rules = vec![soup_rule(cond, tps, tns)];
            c.docs = advc.clone();
            c.texts = vec![cond.clone()];
            vec![c]
        },
        judge,
        |_, rep| rep.label("source_token_soup"),
    );
    // (b) edited G rules and (c) valid G rules
    let advc = adv.clone();
    gen::drive(
        &mut report,
        21,
        n / 3,
        || (gen::rule(gen::RuleOpts::default()), any::<u16>(), random_val(), any::<u8>(), any::<u8>(), any::<u16>(), example_lists()),
        move |(rule, which, val, m, kind, cpos, (tps, tns)): &(RuleSpec, u16, ValSpec, u8, u8, u16, (Vec<serde_yaml::Value>, Vec<serde_yaml::Value>))| {
            if !rule.well_formed() {
                return vec![];
            }
            let mut c = Case::new("c03.edited");
            let text = if kind % 3 == 2 {
                let cond = edit_condition(&rule.cond.text(), *cpos, *m);
                let mut det = match rule.detection_yaml() {
                    serde_yaml::Value::Mapping(m) => m,
                    _ => unreachable!(),
                };
                det.insert("condition".into(), serde_yaml::Value::String(cond));
                engine::rule_text(&serde_yaml::Value::Mapping(det), tps, tns)
            } else {
                let edited = edit_rule(rule, *which, val, *m, *kind);
                if !edited.well_formed() {
                    return vec![];
                }
                engine::rule_text(&edited.detection_yaml(), tps, tns)
            };
            c.rules = vec![text];
            c.docs = advc.clone();
            vec![c]
        },
        judge,
        |_, rep| rep.label("source_edited_rule"),
    );
    let advc = adv.clone();
    gen::drive(
        &mut report,
        22,
        n / 3,
        || (gen::rule(gen::RuleOpts::default()), example_lists()),
        move |(rule, (tps, tns)): &(RuleSpec, (Vec<serde_yaml::Value>, Vec<serde_yaml::Value>))| {
            if !rule.well_formed() {
                return vec![];
            }
            let mut c = Case::new("c03.valid");
            c.rules = vec![engine::rule_text(&rule.detection_yaml(), tps, tns)];
            c.docs = advc.clone();
            vec![c]
        },
        judge,
        |_, rep| rep.label("source_valid_rule"),
    );
    // wide or-groups (hundreds of mappings / of distinct fields): matrix rows and column keys
    // beyond one byte, against documents that hit the far columns
    gen::drive(
        &mut report,
        23,
        if tier == "thorough" { 400 } else { 40 },
        || (gen::rule_wide_sized(vec![127, 128, 129, 130, 140, 160, 190, 194, 195, 255, 256, 257, 260, 300]), prop::collection::vec(any::<u16>(), 24)),
        |(rule, picks): &(RuleSpec, Vec<u16>)| {
            let mut c = Case::new("c03.valid");
            c.rules = vec![rule.text()];
            c.docs = gen::wide_docs(rule, picks);
            vec![c]
        },
        judge,
        |_, rep| rep.label("source_wide_rule"),
    );
    let _ = DArr::default();
    report.finish()
}
