//! C16 Matching reads only the fields the rule names.

use std::borrow::Cow;
use std::collections::BTreeSet;
use std::sync::{Arc, Mutex};

use proptest::prelude::*;
use tau_engine::{AsValue, Object, Value};

use crate::common::*;
use crate::engine::{self, Load, Switches};
use crate::gen;
use crate::model::{parse_segment, DArr, DObj, DocVal};
use crate::spec::*;

pub const ID: &str = "C16";

type Log = Arc<Mutex<Vec<(bool, String)>>>; // (is_root, key)

/// A document tree that records every find()/get() it receives, at the root and on every nested
/// object it hands out.
pub enum RecVal {
    Scalar(DocVal),
    Arr(RecArr),
    Obj(RecObj),
}
pub struct RecArr(Vec<RecVal>);
pub struct RecObj {
    root: bool,
    entries: Vec<(String, RecVal)>,
    log: Log,
}

fn build(v: &DocVal, log: &Log) -> RecVal {
    match v {
        DocVal::Arr(a) => RecVal::Arr(RecArr(a.0.iter().map(|x| build(x, log)).collect())),
        DocVal::Obj(o) => RecVal::Obj(build_obj(o, false, log)),
        other => RecVal::Scalar(other.clone()),
    }
}
fn build_obj(o: &DObj, root: bool, log: &Log) -> RecObj {
    RecObj { root, entries: o.0.iter().map(|(k, v)| (k.clone(), build(v, log))).collect(), log: log.clone() }
}

impl AsValue for RecVal {
    fn as_value(&self) -> Value<'_> {
        match self {
            RecVal::Scalar(d) => d.as_value(),
            RecVal::Arr(a) => Value::Array(a),
            RecVal::Obj(o) => Value::Object(o),
        }
    }
}
impl tau_engine::Array for RecArr {
    fn iter(&self) -> Box<dyn Iterator<Item = Value<'_>> + '_> {
        Box::new(self.0.as_slice().iter().map(|v| v.as_value()))
    }
    fn len(&self) -> usize {
        self.0.len()
    }
}
impl RecObj {
    fn raw(&self, key: &str) -> Option<&RecVal> {
        self.entries.iter().find(|(k, _)| k == key).map(|(_, v)| v)
    }
}
impl Object for RecObj {
    /// Records the key, then resolves it the documented way (dotted path, optional index).
    fn find(&self, key: &str) -> Option<Value<'_>> {
        self.log.lock().unwrap().push((self.root, key.to_string()));
        let mut cur: Option<&RecVal> = None;
        let mut holder: &RecObj = self;
        let mut first = true;
        for seg in key.split('.') {
            let (name, idx) = match parse_segment(seg) {
                Ok(x) => x,
                Err(()) => return self.raw(key).map(|v| v.as_value()),
            };
            if !first {
                holder = match cur {
                    Some(RecVal::Obj(o)) => o,
                    _ => return None,
                };
            }
            first = false;
            let found = holder.raw(name)?;
            cur = Some(match idx {
                None => found,
                Some(i) => match found {
                    RecVal::Arr(a) => a.0.get(i)?,
                    _ => return None,
                },
            });
        }
        cur.map(|v| v.as_value())
    }
    fn get(&self, key: &str) -> Option<Value<'_>> {
        self.log.lock().unwrap().push((self.root, key.to_string()));
        self.raw(key).map(|v| v.as_value())
    }
    fn keys(&self) -> Vec<Cow<'_, str>> {
        // asking for all keys would also be a way of reading unnamed fields
        self.log.lock().unwrap().push((self.root, "<keys()>".to_string()));
        self.entries.iter().map(|(k, _)| Cow::Borrowed(k.as_str())).collect()
    }
    fn len(&self) -> usize {
        self.entries.len()
    }
}

/// Keys written in the rule: (top-level keys incl. condition cast fields, keys written inside
/// nested blocks).
fn rule_keys(rule_text: &str) -> Option<(BTreeSet<String>, BTreeSet<String>)> {
    let r = crate::reference::load_rule_text(rule_text, false).ok()?;
    let mut top = BTreeSet::new();
    let mut nested = BTreeSet::new();
    fn block(b: &crate::reference::RBlock, depth: usize, top: &mut BTreeSet<String>, nested: &mut BTreeSet<String>) {
        for e in &b.0 {
            if depth == 0 {
                top.insert(e.field.clone());
            } else {
                nested.insert(e.field.clone());
            }
            val(&e.val, depth, top, nested);
        }
    }
    fn val(v: &crate::reference::RVal, depth: usize, top: &mut BTreeSet<String>, nested: &mut BTreeSet<String>) {
        match v {
            crate::reference::RVal::Block(b) => block(b, depth + 1, top, nested),
            crate::reference::RVal::List(l) => {
                for x in l {
                    val(x, depth, top, nested)
                }
            }
            _ => {}
        }
    }
    for (_, id) in &r.idents {
        match id {
            crate::reference::RIdent::Map(b) => block(b, 0, &mut top, &mut nested),
            crate::reference::RIdent::Seq(bs) => {
                for b in bs {
                    block(b, 0, &mut top, &mut nested)
                }
            }
        }
    }
    fn cond(c: &crate::reference::Cond, top: &mut BTreeSet<String>) {
        use crate::reference::{Cond, Operand};
        match c {
            Cond::And(a, b) | Cond::Or(a, b) => {
                cond(a, top);
                cond(b, top);
            }
            Cond::Not(x) => cond(x, top),
            Cond::Cmp(a, _, b) => {
                for o in [a, b] {
                    if let Operand::Cast(_, f) = o {
                        top.insert(f.clone());
                    }
                }
            }
            _ => {}
        }
    }
    cond(&r.cond, &mut top);
    Some((top, nested))
}

/// rules[0] = rule text; docs = documents. For each document also builds variants that differ only
/// in fields the rule does not address.
pub fn judge(case: &Case) -> Outcome {
    let text = &case.rules[0];
    let rule = match engine::load_text(text) {
        Load::Ok(r) => r,
        Load::Rejected(_) => return Outcome::Skip("rule does not load".into()),
        Load::Panicked(p) => return Outcome::Violation(format!("loader panicked: {p}")),
    };
    let (top, nested) = match rule_keys(text) {
        Some(k) => k,
        None => return Outcome::Skip("reference cannot read the rule".into()),
    };
    let mut evals = 0;
    let mut labels = vec![];
    let mut nontrivial = None;
    let switch_sets: Vec<Option<Switches>> =
        std::iter::once(None).chain(Switches::all().into_iter().map(Some)).collect();
    for sw in switch_sets {
        let r = match sw {
            None => rule.clone(),
            Some(s) => match engine::optimise(&rule, s) {
                Ok(o) => o,
                Err(p) => return Outcome::Violation(format!("optimise panicked: {p}")),
            },
        };
        let shown = r.detection.expression.to_string();
        let has_matrix = shown.contains("matrix(");
        if has_matrix || shown.contains("nested(") {
            nontrivial = Some(hash_str(text));
        }
        if has_matrix && sw.map(|s| s.bits()) == Some(15) {
            labels.push("default_opt_has_matrix");
        }
        let sw_text = sw.map(|s| s.show()).unwrap_or("unoptimised".into());
        for (di, d) in case.docs.iter().enumerate() {
            // (1) recorded keys
            let log: Log = Arc::new(Mutex::new(vec![]));
            let rec = build_obj(d, true, &log);
            let base = match engine::matches(&r, &rec) {
                Ok(b) => b,
                Err(p) => return Outcome::Violation(format!("matches panicked: {p}")),
            };
            evals += 1;
            for (is_root, key) in log.lock().unwrap().iter() {
                // a dotted key is asked of the object it is resolved on; its segments are then
                // looked up with get() on the way down - only whole keys are compared here
                let whole_ok = if *is_root { top.contains(key) } else { nested.contains(key) };
                // segments of written keys, as looked up by the default find() implementation
                let seg_ok = top.iter().chain(nested.iter()).any(|w| {
                    w.split('.').any(|s| s == key || s.split('[').next() == Some(key.as_str()))
                });
                if !(whole_ok || seg_ok) {
                    return Outcome::Violation(format!(
                        "doc #{di} {}: with {sw_text} the engine asked the {} for key {:?}, which is not written in the rule (keys: {:?} / nested {:?}); expression: {shown}",
                        d.show(),
                        if *is_root { "document" } else { "nested object" },
                        key,
                        top,
                        nested
                    ));
                }
            }
            // the plain model document must agree with the recording one
            match engine::matches(&r, d) {
                Ok(b) if b == base => {}
                Ok(b) => {
                    return Outcome::Violation(format!(
                        "doc #{di}: verdict {b} on the plain document but {base} on the recording document ({sw_text})"
                    ))
                }
                Err(p) => return Outcome::Violation(format!("matches panicked: {p}")),
            }
            // (2) variants that differ only in unaddressed fields
            for (vi, variant) in unaddressed_variants(d, &top, &nested).iter().enumerate() {
                match engine::matches(&r, variant) {
                    Ok(b) if b == base => {}
                    Ok(b) => {
                        return Outcome::Violation(format!(
                            "doc #{di} {}: verdict {base}, but {b} for variant #{vi} {} which differs only in fields no predicate addresses ({sw_text}); expression: {shown}",
                            d.show(),
                            variant.show()
                        ))
                    }
                    Err(p) => return Outcome::Violation(format!("matches panicked on a variant: {p}")),
                }
                evals += 1;
            }
        }
    }
    Outcome::Pass { nontrivial, evaluations: evals, labels }
}

fn addressed_top(top: &BTreeSet<String>) -> BTreeSet<String> {
    top.iter().map(|k| k.split('.').next().unwrap_or("").split('[').next().unwrap_or("").to_string()).collect()
}

fn unaddressed_variants(d: &DObj, top: &BTreeSet<String>, nested: &BTreeSet<String>) -> Vec<DObj> {
    let addressed = addressed_top(top);
    let mut out = vec![];
    // add fields, including the one-character names the matrix uses internally
    let mut a = d.clone();
    for (i, name) in ["\u{0}", "\u{1}", "\u{2}", "\u{3}", "extra_unaddressed"].iter().enumerate() {
        if !addressed.contains(*name) {
            a.set(name, match i % 3 {
                0 => DocVal::s("a"),
                1 => DocVal::Int(1),
                _ => DocVal::obj(vec![("x", DocVal::s("a")), ("\u{0}", DocVal::s("a"))]),
            });
        }
    }
    out.push(a);
    // decoys: top-level fields named like the inner segments of the written paths (`o1.l[1]` names
    // `l` only inside `o1`; a top-level `l` is not addressed by anything)
    let mut decoy = d.clone();
    let mut decoyed = false;
    for key in top.iter() {
        for seg in key.split('.').skip(1) {
            let (name, indexed) = match seg.split_once('[') {
                Some((n, _)) => (n, true),
                None => (seg, false),
            };
            if name.is_empty() || addressed.contains(name) || decoy.get_val(name).is_some() {
                continue;
            }
            let v = if indexed {
                DocVal::arr(vec![DocVal::s("a"), DocVal::s("a"), DocVal::s("a")])
            } else {
                DocVal::s("a")
            };
            decoy.set(name, v);
            decoyed = true;
        }
    }
    if decoyed {
        out.push(decoy);
    }
    // remove / alter existing unaddressed top-level fields
    let mut r = d.clone();
    r.0.retain(|(k, _)| addressed.contains(k));
    if r != *d {
        out.push(r);
    }
    let mut alt = d.clone();
    let mut changed = false;
    for (k, v) in alt.0.iter_mut() {
        if !addressed.contains(k) {
            *v = DocVal::s("altered");
            changed = true;
        }
    }
    if changed {
        out.push(alt);
    }
    // inside nested objects: add keys that no block names
    let nested_first: BTreeSet<String> =
        nested.iter().chain(top.iter()).flat_map(|k| k.split('.').map(|s| s.split('[').next().unwrap_or("").to_string()).collect::<Vec<_>>()).collect();
    fn add_inner(v: &mut DocVal, names: &BTreeSet<String>) {
        match v {
            DocVal::Obj(o) => {
                for (_, x) in o.0.iter_mut() {
                    add_inner(x, names);
                }
                for n in ["\u{0}", "\u{1}", "inner_unaddressed"] {
                    if !names.contains(n) {
                        o.set(n, DocVal::s("a"));
                    }
                }
            }
            DocVal::Arr(a) => {
                for x in a.0.iter_mut() {
                    add_inner(x, names);
                }
            }
            _ => {}
        }
    }
    let mut inner = d.clone();
    for (_, v) in inner.0.iter_mut() {
        add_inner(v, &nested_first);
    }
    if inner != *d {
        out.push(inner);
    }
    let _ = DArr::default();
    out
}

pub fn run(tier: &str, seed: u64) -> i32 {
    let mut report = Report::new(ID, tier, seed);
    report.rule = "grammar-G and optimiser-shaped rules x {unoptimised, all 16 switch sets} x 6 recipe documents, matched \
        against a recording Document whose root and every nested object log each find()/get()/keys() call. Oracles: \
        (1) every key asked of the root is a key written at the top level of the rule or a cast field of the \
        condition, every key asked of a nested object is written inside a nested block (or is a path segment of such \
        a key, as the default find() looks segments up one by one) - in particular never a one-character synthetic \
        matrix key; (2) documents that differ only in fields no predicate addresses - fields added (including ones \
        named U+0000..U+0003), removed or altered at the top level, and unaddressed keys added inside every nested \
        object - get the same verdict under every switch set; the recording and the plain document agree. \
        Unaddressed variants include top-level decoys named like the inner segments of the written paths. \
        Wide or-groups (129-300 mappings, one field with >= 256 entries next to one with few) are included. \
        Non-trivial: the (optimised) expression holds a matrix or a nested block; distinct by rule text."
        .into();
    let findings = load_findings();
    replay_findings(&mut report, &findings, &judge);
    let n = if tier == "thorough" { 150_000 } else { 8_000 };
    gen::drive(
        &mut report,
        100,
        n,
        || {
            (
                prop_oneof![3 => gen::rule(gen::RuleOpts::default()), 3 => gen::rule_focus(true), 1 => gen::rule_nested_focus(true)],
                prop::collection::vec(gen::doc_recipe(), 6),
            )
        },
        |(rule, recipes): &(RuleSpec, Vec<gen::DocRecipe>)| {
            if !rule.well_formed() {
                return vec![];
            }
            let mut c = Case::new("c16.recording");
            c.rules = vec![rule.text()];
            c.docs = recipes.iter().map(|r| gen::build_doc(rule, r)).collect();
            vec![c]
        },
        judge,
        |_, _| {},
    );
    // wide or-groups: the synthetic column keys of a matrix must never reach the document, whatever
    // the number of entries per field
    gen::drive(
        &mut report,
        31,
        if tier == "thorough" { 300 } else { 32 },
        || (gen::rule_wide_with(vec![129, 255, 256, 257, 300], vec![0, 1, 2, 3, 3]), prop::collection::vec(any::<u16>(), 6)),
        |(rule, picks): &(crate::spec::RuleSpec, Vec<u16>)| {
            let mut c = Case::new("c16.wide");
            c.rules = vec![rule.text()];
            c.docs = gen::wide_docs(rule, picks);
            vec![c]
        },
        judge,
        |_, rep| rep.label("wide_or_group_rule"),
    );
    report.finish()
}
