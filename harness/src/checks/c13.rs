//! C13 validate() agrees with matches() on the rule's own examples.

use proptest::prelude::*;
use serde_yaml::Value as Y;

use crate::common::*;
use crate::engine::{self, guarded, Load, Switches};
use crate::gen;
use crate::model::DocVal;
use crate::spec::RuleSpec;

pub const ID: &str = "C13";

fn marker_of(v: &Y) -> Option<String> {
    // as_mapping() looks through YAML tags
    v.as_mapping().and_then(|m| m.get(Y::String("marker".into()))).and_then(|x| x.as_str()).map(|s| s.to_string())
}

/// rules[0] = rule text with example lists; switches = Some(bits) to optimise first.
pub fn judge(case: &Case) -> Outcome {
    let rule = match engine::load_text(&case.rules[0]) {
        Load::Ok(r) => r,
        Load::Rejected(_) => return Outcome::Skip("rule does not load".into()),
        Load::Panicked(p) => return Outcome::Violation(format!("loader panicked: {p}")),
    };
    let rule = match case.switches {
        Some(b) => match engine::optimise(&rule, Switches::from_bits(b)) {
            Ok(o) => o,
            Err(p) => return Outcome::Violation(format!("optimise panicked: {p}")),
        },
        None => rule,
    };
    // what matches() says about every example
    let mut failing: Vec<String> = vec![];
    let mut passing: Vec<String> = vec![];
    let mut malformed = 0;
    let mut evals = 0;
    for (list, want) in [(&rule.true_positives, true), (&rule.true_negatives, false)] {
        for ex in list.iter() {
            match ex.as_mapping() {
                Some(m) => {
                    let got = match engine::matches(&rule, m) {
                        Ok(b) => b,
                        Err(p) => return Outcome::Violation(format!("matches panicked: {p}")),
                    };
                    evals += 1;
                    if let Some(mk) = marker_of(ex) {
                        if got == want {
                            passing.push(mk)
                        } else {
                            failing.push(mk)
                        }
                    }
                }
                None => malformed += 1,
            }
        }
    }
    let result = match guarded(|| rule.validate()) {
        Ok(r) => r,
        Err(p) => return Outcome::Violation(format!("validate() panicked: {p}")),
    };
    evals += 1;
    let mut labels = vec![];
    match result {
        Ok(v) => {
            if !v {
                return Outcome::Violation("validate() returned Ok(false)".into());
            }
            if malformed > 0 {
                return Outcome::Violation(format!(
                    "validate() succeeded although {malformed} example(s) are not mappings"
                ));
            }
            if !failing.is_empty() {
                return Outcome::Violation(format!(
                    "validate() succeeded although matches() disagrees with the examples {failing:?}"
                ));
            }
            labels.push("validate_ok");
        }
        Err(e) => {
            if !matches!(e.kind(), tau_engine::ErrorKind::Validation) {
                return Outcome::Violation(format!("validate() failed with a non-validation error: {e:?}"));
            }
            if failing.is_empty() && malformed == 0 {
                return Outcome::Violation(format!(
                    "validate() failed although every example agrees with matches(): {e}"
                ));
            }
            let text = format!("{e} {e:?}");
            for f in &failing {
                if !text.contains(f.as_str()) {
                    return Outcome::Violation(format!("validation error does not name the failing example {f}: {e}"));
                }
            }
            for p in &passing {
                if failing.contains(p) {
                    // the same document fails in the other list: it has to be named
                    continue;
                }
                if text.contains(p.as_str()) {
                    return Outcome::Violation(format!("validation error names the passing example {p}: {e}"));
                }
            }
            labels.push("validate_err");
            if malformed > 0 {
                labels.push("with_malformed_example");
            }
        }
    }
    if case.switches.is_some() {
        labels.push("optimised_rule");
    }
    Outcome::Pass {
        nontrivial: if !failing.is_empty() && !passing.is_empty() { Some(hash_str(&case.rules[0])) } else { None },
        evaluations: evals,
        labels,
    }
}

pub fn run(tier: &str, seed: u64) -> i32 {
    let mut report = Report::new(ID, tier, seed);
    report.rule = "grammar-G rules (unoptimised, or optimised with a random switch set) with 0-5 true_positives and 0-5 \
        true_negatives built from recipe documents, each carrying a unique marker field the rule never addresses; one \
        in five lists also holds a non-mapping entry (scalar, sequence, null). Oracle: validate() is Ok(true) exactly \
        when matches() is true for every positive and false for every negative and no entry is malformed; otherwise \
        it is an Err of kind Validation whose text names the marker of every failing example and of no passing one; \
        never a panic. Malformed entries include tagged values that are not mappings. Non-trivial: at least one failing and one passing example in the same rule; distinct by rule \
        text."
        .into();
    let findings = load_findings();
    replay_findings(&mut report, &findings, &judge);
    // examples that a memo keyed on the YAML mapping would confuse: equal but for the sign of a
    // zero, 1 against 1.0, .nan twice - each judged on its own by matches()
    for (body, a, b) in [
        ("    str(delta): '-0'\n", "-0.0", "0.0"),
        ("    str(delta): '0'\n", "0.0", "-0.0"),
        ("    str(delta): '0*'\n", "-0.0", "0.0"),
        ("    str(delta): '1'\n", "1", "1.0"),
        ("    delta: 1\n", "1.0", "1"),
        ("    str(delta): 'NaN'\n", ".nan", ".NaN"),
        ("    delta: '>=0'\n", "0", "-0.0"),
    ] {
        for (first, second) in [(a, b), (b, a)] {
            for layout in 0..3 {
                let ex = |v: &str| format!("- delta: {v}\n  marker: ex01q\n");
                let (tp, tn) = match layout {
                    0 => (format!("{}{}", ex(first), ex(second)), "[]\n".to_string()),
                    1 => (format!("\n{}", ex(first)), format!("\n{}", ex(second))),
                    _ => ("[]\n".to_string(), format!("\n{}{}", ex(first), ex(second))),
                };
                let tp = if tp.starts_with('-') { format!("\n{tp}") } else { tp };
                let mut c = Case::new("c13.validate");
                c.rules = vec![format!("detection:\n  A:\n{body}  condition: A\ntrue_positives: {tp}true_negatives: {tn}")];
                let out = judge(&c);
                report.label("near_equal_examples");
                report.record(&c, out);
            }
        }
    }
    let n = if tier == "thorough" { 400_000 } else { 16_000 };
    gen::drive(
        &mut report,
        70,
        n,
        || {
            (
                gen::rule(gen::RuleOpts::default()),
                prop::collection::vec(gen::doc_recipe(), 0..=5),
                prop::collection::vec(gen::doc_recipe(), 0..=5),
                prop_oneof![2 => Just(None), 1 => (0u8..16).prop_map(Some), 1 => Just(Some(15u8))],
                prop_oneof![4 => Just(None), 2 => (0u8..9, any::<bool>(), any::<u8>()).prop_map(Some)],
            )
        },
        |(rule, tps, tns, sw, bad): &(RuleSpec, Vec<gen::DocRecipe>, Vec<gen::DocRecipe>, Option<u8>, Option<(u8, bool, u8)>)| {
            if !rule.well_formed() {
                return vec![];
            }
            let mut counter = 0;
            let mut mk = |r: &gen::DocRecipe| -> Y {
                let mut d = gen::build_doc(rule, r).normalised();
                counter += 1;
                d.set("marker", DocVal::Str(format!("ex{counter:02}q")));
                Y::Mapping(d.to_yaml_mapping())
            };
            let mut p: Vec<Y> = tps.iter().map(&mut mk).collect();
            let mut ng: Vec<Y> = tns.iter().map(&mut mk).collect();
            // now and then an example is a tagged mapping (still a mapping), or carries a top-level
            // key that is literally spelled like one of the rule's dotted / indexed paths
            let paths: Vec<String> = crate::spec::collect_leaves(rule)
                .iter()
                .filter(|l| l.prefix.is_empty() && (l.field.contains('.') || l.field.contains('[')))
                .map(|l| l.field.clone())
                .collect();
            for (i, ex) in p.iter_mut().chain(ng.iter_mut()).enumerate() {
                if let (Y::Mapping(m), false) = (&mut *ex, paths.is_empty()) {
                    if (i + counter) % 3 == 0 {
                        let path = &paths[(i + counter) % paths.len()];
                        m.insert(Y::String(path.clone()), Y::String(["a", "b", "zz"][i % 3].to_string()));
                    }
                }
                if (i + counter) % 5 == 1 {
                    let inner = ex.clone();
                    *ex = Y::Tagged(Box::new(serde_yaml::value::TaggedValue {
                        tag: serde_yaml::value::Tag::new("event"),
                        value: inner,
                    }));
                }
            }
            // now and then the same example appears in both lists (it must then fail one of them)
            if *sw != Some(7) && !p.is_empty() && counter % 4 == 0 {
                let dup = p[counter % p.len()].clone();
                ng.push(dup);
            }
            if let Some((kind, in_pos, at)) = bad {
                let v = match kind {
                    0 => Y::Number(1.into()),
                    1 => Y::String("not a mapping".into()),
                    2 => Y::Null,
                    3 => Y::Sequence(vec![Y::String("x".into())]),
                    4 => Y::Bool(true),
                    // tagged values that are not mappings either
                    k => {
                        let inner = match k {
                            5 => Y::String("tagged text".into()),
                            6 => Y::Null,
                            7 => Y::Number(3.into()),
                            _ => Y::Sequence(vec![Y::Mapping(serde_yaml::Mapping::new())]),
                        };
                        Y::Tagged(Box::new(serde_yaml::value::TaggedValue { tag: serde_yaml::value::Tag::new("example"), value: inner }))
                    }
                };
                let list = if *in_pos { &mut p } else { &mut ng };
                let i = (*at as usize) % (list.len() + 1);
                list.insert(i, v);
            }
            let mut c = Case::new("c13.validate");
            c.rules = vec![engine::rule_text(&rule.detection_yaml(), &p, &ng)];
            c.switches = *sw;
            vec![c]
        },
        judge,
        |_, _| {},
    );
    report.finish()
}
