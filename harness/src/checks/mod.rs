pub mod c02;
