pub mod c01;
pub mod c02;
pub mod c03;
pub mod c06;
pub mod c07;
pub mod c08;
pub mod c09;
pub mod c10;
