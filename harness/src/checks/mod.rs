pub mod c02;
pub mod c06;
pub mod c09;
