//! C09 Numeric comparisons and casts are order-correct and overflow-safe.
//!
//! Exhaustive over boundary sets of operator forms x constants x field values, plus random 64-bit
//! values. The oracle is the exact arithmetic of the reference interpreter (i128 / exact
//! integer-vs-double comparison); for operands of the same numeric kind its answer is a single
//! value, so soundness, completeness and trichotomy are all decided by set membership.

use proptest::prelude::*;
use serde_json::json;

use crate::checks::c02;
use crate::common::*;
use crate::engine::Tri;
use crate::gen;
use crate::model::{DObj, DocVal};

pub const ID: &str = "C09";

pub fn judge(case: &Case) -> Outcome {
    let results = match c02::eval_case(case) {
        Ok(r) => r,
        Err(o) => return o,
    };
    // Non-trivial: the documents of this rule produce both a true and a non-true result
    let t = results.iter().any(|(r, _, _)| *r == Tri::T);
    let n = results.iter().any(|(r, _, _)| *r != Tri::T);
    let mut labels = vec![];
    for (tri, set, _) in &results {
        labels.push(match tri {
            Tri::T => "result_true",
            Tri::F => "result_false",
            Tri::M => "result_missing",
            Tri::Both => "result_both",
        });
        if set.count_ones() == 1 {
            labels.push("oracle_exact");
        } else {
            labels.push("oracle_set_valued");
        }
    }
    Outcome::Pass {
        nontrivial: if t && n { Some(hash_str(&case.rules[0])) } else { None },
        evaluations: 2 * results.len() as u64,
        labels,
    }
}

/// A disjunction of identifiers, each a conjunction of a (cast) numeric predicate on n / m and a
/// string predicate, some of them and-ed in the condition with a comparison of a cast field and a
/// constant (either operand order): the shape the optimiser turns into matrix rows. Returns
/// (condition, identifier blocks, documents).
pub fn matrix_shaped(blocks: &[(u8, &str, i64, u8, u8)], vals: &[(u8, i64)], negate: bool) -> (String, String, Vec<DObj>) {
            // identifiers I0..Ik, each a conjunction of a (cast) numeric predicate on n / m and a
            // string predicate; condition I0 or I1 or ..
            let mut body = String::new();
            let mut names = vec![];
            for (i, (kind, op, c, other, wrap)) in blocks.iter().enumerate() {
                let field = if kind % 2 == 0 { "n" } else { "m" };
                let pred = match kind / 2 {
                    0 => format!("    int({field}): '{op}{c}'\n"),
                    1 => format!("    flt({field}): '{op}{c}.5'\n"),
                    _ => format!("    {field}: '{op}{c}'\n"),
                };
                let second = match other {
                    0 => "    f1: a\n".to_string(),
                    1 => format!("    int({}): {}\n", if field == "n" { "m" } else { "n" }, c + 1),
                    2 => "    f1: 'b*'\n".to_string(),
                    _ => String::new(),
                };
                body.push_str(&format!("  I{i}:\n{pred}{second}"));
                // the identifier alone, or and-ed in the condition with a comparison of a cast field
                // and a constant, written field-first or constant-first (a matrix row that holds a
                // comparison cell)
                let cop = if *op == "=" { "==" } else { op };
                let other_field = if field == "n" { "m" } else { "n" };
                names.push(match wrap {
                    4 => format!("(I{i} and int({other_field}) {cop} {})", c + 1),
                    5 => format!("(I{i} and {} {cop} int({other_field}))", c + 1),
                    6 => format!("({c}.5 {cop} flt({field}) and I{i})"),
                    7 => format!("(I{i} and {} {cop} int({field}))", c - 1),
                    8 => format!("(flt({other_field}) {cop} {c}.5 and I{i})"),
                    _ => format!("I{i}"),
                });
            }
            // now and then a field-to-field comparison (only the condition can express it) joins
            // the chain
            let mut operands = names.clone();
            if let Some((k, op, _, _, _)) = blocks.first() {
                match k % 3 {
                    0 => operands.insert(1, format!("int(n) {} int(m)", if *op == "=" { "==" } else { op })),
                    1 => operands.push(format!("flt(m) {} flt(n)", if *op == "=" { "==" } else { op })),
                    _ => {}
                }
            }
            let cond = operands.join(" or ");
            let cond = if negate { format!("not ({cond})") } else { cond };
            let mut docs = vec![DObj::default()];
            for (k, v) in vals {
                let val = match k {
                    0 => DocVal::Int(*v),
                    1 => DocVal::UInt(v.unsigned_abs()),
                    2 => DocVal::Str(v.to_string()),
                    3 => DocVal::Float(*v as f64 + 0.5),
                    4 => DocVal::Str(format!("{}.5", v)),
                    5 => DocVal::Bool(*v % 2 == 0),
                    6 => DocVal::Float(*v as f64),
                    _ => DocVal::s("abc"),
                };
                for (a, b) in [("n", "m"), ("m", "n")] {
                    docs.push(DObj(vec![(a.to_string(), val.clone()), ("f1".to_string(), DocVal::s("a"))]));
                    docs.push(DObj(vec![(a.to_string(), val.clone()), (b.to_string(), DocVal::Int(*v + 1)), ("f1".to_string(), DocVal::s("bc"))]));
                }
            }
            (cond, body, docs)
}

pub fn matrix_shaped_strategy() -> impl Strategy<Value = (Vec<(u8, &'static str, i64, u8, u8)>, Vec<(u8, i64)>, bool)> {
    (
        prop::collection::vec((0u8..6, prop::sample::select(vec!["=", ">", ">=", "<", "<="]), -2i64..8, 0u8..4, 0u8..10), 3..=5),
        prop::collection::vec((0u8..8, -2i64..9), 6),
        any::<bool>(),
    )
}

fn rule_texts(ident_body: &str, cond: &str) -> Vec<String> {
    let mk = |c: &str| {
        format!("detection:\n  A:\n{ident_body}  condition: {c}\ntrue_positives: []\ntrue_negatives: []\n")
    };
    vec![mk(cond), mk(&format!("not ({cond})"))]
}

pub fn field_values() -> Vec<DocVal> {
    use DocVal::*;
    vec![
        Int(i64::MIN),
        Int(i64::MIN + 1),
        Int(-2),
        Int(-1),
        Int(0),
        Int(1),
        Int(2),
        Int((1 << 53) + 1),
        Int(i64::MAX - 1),
        Int(i64::MAX),
        UInt(0),
        UInt(1),
        UInt(2),
        UInt(1 << 53),
        UInt(i64::MAX as u64),
        UInt(i64::MAX as u64 + 1),
        UInt(u64::MAX),
        Float(0.0),
        Float(-0.0),
        Float(0.5),
        Float(1.0),
        Float(1.5),
        Float(2.0),
        Float(2.5),
        Float(-2.5),
        Float(-1.0),
        Float(9.3e18),
        Float(9223372036854775807.0),
        Float(18446744073709551616.0),
        Float(-9223372036854775808.0),
        Float(-9.3e18),
        Float(1e300),
        Float(f64::MAX),
        Float(f64::MIN_POSITIVE),
        Float(f64::INFINITY),
        Float(f64::NEG_INFINITY),
        Float(f64::NAN),
        DocVal::s("5"),
        DocVal::s("-5"),
        DocVal::s("5.5"),
        DocVal::s("+5"),
        DocVal::s("1e3"),
        DocVal::s(" 5"),
        DocVal::s("1"),
        DocVal::s("0"),
        DocVal::s("2.5"),
        DocVal::s("2"),
        DocVal::s("2.0"),
        DocVal::s("1000000000000000000000"),
        DocVal::s("1e21"),
        DocVal::s("-0"),
        Float(1e21),
        DocVal::s("9223372036854775807"),
        DocVal::s("9223372036854775808"),
        DocVal::s("18446744073709551615"),
        DocVal::s("18446744073709552000"),
        DocVal::s("00000000000000000042"),
        DocVal::s("+0000000000000000000001"),
        DocVal::s("-00000000000000000000"),
        DocVal::s("0000000000000000000000009223372036854775807"),
        DocVal::s("000000000000000000000000000002.5"),
        DocVal::s("1_000"),
        DocVal::s("0x10"),
        DocVal::s("１"),
        DocVal::s("inf"),
        DocVal::s("NaN"),
        DocVal::s("abc"),
        DocVal::s(""),
        DocVal::s("true"),
        Bool(true),
        Bool(false),
        Null,
        DocVal::arr(vec![]),
        DocVal::arr(vec![Int(1)]),
        DocVal::obj(vec![]),
    ]
}

const OPS: &[(&str, &str)] = &[("=", "=="), (">", ">"), (">=", ">="), ("<", "<"), ("<=", "<=")];

pub fn build_cases() -> Vec<Case> {
    let mut cases = vec![];
    let int_consts: Vec<i64> = vec![i64::MIN, -1, 0, 1, 2, 1 << 53, i64::MAX - 1, i64::MAX];
    let flt_consts: Vec<f64> = vec![0.5, 0.0, 1.0, 2.5, -2.5, 9.3e18, 9007199254740993.0];
    let vals = field_values();
    let docs1: Vec<DObj> = std::iter::once(DObj::default())
        .chain(vals.iter().map(|v| DObj(vec![("n".to_string(), v.clone())])))
        .collect();
    let mut push = |form: &str, body: String, cond: &str, docs: &Vec<DObj>| {
        let mut c = Case::new("c09.numeric");
        c.rules = rule_texts(&body, cond);
        c.docs = docs.clone();
        c.extra = json!({ "form": form });
        cases.push(c);
    };
    // key forms
    for c in &int_consts {
        push("bare integer", format!("    n: {c}\n"), "A", &docs1);
        push("int(k): integer", format!("    int(n): {c}\n"), "A", &docs1);
        push("str(k): integer", format!("    str(n): {c}\n"), "A", &docs1);
        for (p, _) in OPS {
            push("integer pattern", format!("    n: '{p}{c}'\n"), "A", &docs1);
            push("int(k): integer pattern", format!("    int(n): '{p}{c}'\n"), "A", &docs1);
            push("not(k): integer pattern", format!("    not(n): '{p}{c}'\n"), "A", &docs1);
        }
    }
    for c in &flt_consts {
        push("bare float", format!("    n: {c:?}\n"), "A", &docs1);
        push("flt(k): float", format!("    flt(n): {c:?}\n"), "A", &docs1);
        push("str(k): float", format!("    str(n): {c:?}\n"), "A", &docs1);
        for (p, _) in OPS {
            push("float pattern", format!("    n: '{p}{c:?}'\n"), "A", &docs1);
            push("flt(k): float pattern", format!("    flt(n): '{p}{c:?}'\n"), "A", &docs1);
        }
    }
    // constants outside the signed range: a loader may refuse them; one that does not has to give
    // them the meaning of the integer that was written
    for c in [9223372036854775808u64, 18446744073709551615u64] {
        push("wide integer", format!("    n: {c}\n"), "A", &docs1);
        push("wide integer", format!("    int(n): {c}\n"), "A", &docs1);
        push("wide integer", format!("    str(n): {c}\n"), "A", &docs1);
        push("wide integer", format!("    n: [1, {c}]\n"), "A", &docs1);
        push("wide integer", format!("    str(n): [1, {c}]\n"), "A", &docs1);
    }
    for b in [true, false] {
        push("int(k): bool", format!("    int(n): {b}\n"), "A", &docs1);
        push("str(k): bool", format!("    str(n): {b}\n"), "A", &docs1);
        push("bare bool", format!("    n: {b}\n"), "A", &docs1);
    }
    for t in ["5", "'5.5'", "1.5", "-1", "'NaN'", "inf", "'1e300'", "'18446744073709551615'", "'*5*'", "'i*E*'"] {
        push("str(k): text", format!("    str(n): {t}\n"), "A", &docs1);
    }
    push("lists", "    n: [1, '>=5', 2.5]\n".to_string(), "A", &docs1);
    push("lists", "    int(n): [1, '>=5', true]\n".to_string(), "A", &docs1);
    push("lists", "    flt(n): [1.5, '<0.5']\n".to_string(), "A", &docs1);
    push("lists", "    str(n): [1, 2.5, true, 'x']\n".to_string(), "A", &docs1);
    // floats whose YAML spelling differs from the text a cast produces (2.0 -> "2", 1e21 -> digits)
    push("lists", "    str(n): [2.0, 3.5]\n".to_string(), "A", &docs1);
    push("lists", "    str(n): [1.0e+21, 0.5]\n".to_string(), "A", &docs1);
    push("lists", "    str(n): [-0.0, .inf]\n".to_string(), "A", &docs1);
    push("str(k): float", "    str(n): 2.0\n".to_string(), "A", &docs1);
    push("str(k): float", "    str(n): 1.0e+21\n".to_string(), "A", &docs1);
    push("lists", "    of(n, 2): ['>0', '<10', 5]\n".to_string(), "A", &docs1);
    push("lists", "    all(n): ['>0', '<10']\n".to_string(), "A", &docs1);
    // condition forms
    let dummy = "    zz: zz\n".to_string();
    for c in int_consts.iter() {
        for (_, o) in OPS {
            push("int(f) op c", dummy.clone(), &format!("int(n) {o} {c}"), &docs1);
            push("c op int(f)", dummy.clone(), &format!("{c} {o} int(n)"), &docs1);
        }
    }
    for c in flt_consts.iter() {
        let text = if format!("{c:?}").contains('e') { format!("{c:.1}") } else { format!("{c:?}") };
        for (_, o) in OPS {
            push("flt(f) op c", dummy.clone(), &format!("flt(n) {o} {text}"), &docs1);
            push("c op flt(f)", dummy.clone(), &format!("{text} {o} flt(n)"), &docs1);
        }
    }
    // two-field forms over pairs
    let mut pair_vals: Vec<DocVal> = vals.iter().step_by(2).cloned().collect();
    // both zeros and NaN on both sides: their texts ("0" / "-0", "NaN" / "NaN") and their IEEE
    // comparison disagree
    for v in [DocVal::Float(0.0), DocVal::Float(-0.0), DocVal::Float(f64::NAN), DocVal::Int(0), DocVal::s("0"), DocVal::s("-0")] {
        if !pair_vals.iter().any(|p| format!("{p:?}") == format!("{v:?}")) {
            pair_vals.push(v);
        }
    }
    let mut docs2 = vec![DObj::default()];
    for a in &pair_vals {
        docs2.push(DObj(vec![("n".to_string(), a.clone())]));
        docs2.push(DObj(vec![("m".to_string(), a.clone())]));
        for b in &pair_vals {
            docs2.push(DObj(vec![("n".to_string(), a.clone()), ("m".to_string(), b.clone())]));
        }
    }
    for (_, o) in OPS {
        push("int(a) op int(b)", dummy.clone(), &format!("int(n) {o} int(m)"), &docs2);
        push("flt(a) op flt(b)", dummy.clone(), &format!("flt(n) {o} flt(m)"), &docs2);
    }
    push("str(a) == str(b)", dummy.clone(), "str(n) == str(m)", &docs2);
    cases
}

fn rand_num() -> BoxedStrategy<DocVal> {
    prop_oneof![
        3 => any::<i64>().prop_map(DocVal::Int),
        3 => any::<u64>().prop_map(DocVal::UInt),
        2 => any::<f64>().prop_map(DocVal::Float),
        2 => (any::<i64>(), -3i64..=3).prop_map(|(b, d)| DocVal::Int(b.wrapping_add(d))),
        2 => prop::sample::select(vec![i64::MIN, -1, 0, 1, i64::MAX]).prop_flat_map(|b| (-2i64..=2).prop_map(move |d| DocVal::Int(b.saturating_add(d)))),
        2 => prop::sample::select(vec![0u64, i64::MAX as u64, u64::MAX]).prop_flat_map(|b| (-2i64..=2).prop_map(move |d| DocVal::UInt(b.saturating_add_signed(d)))),
        2 => (0u32..64, -1i64..=1).prop_map(|(k, d)| DocVal::Int((1i64.wrapping_shl(k)).wrapping_add(d))),
        1 => (0u32..64, -1i64..=1).prop_map(|(k, d)| DocVal::UInt((1u64 << k).wrapping_add_signed(d))),
        1 => (0i32..1024, -1i64..=1).prop_map(|(k, d)| DocVal::Float(2f64.powi(k - 512) + d as f64)),
        1 => any::<i64>().prop_map(|i| DocVal::Float(i as f64)),
        1 => any::<i64>().prop_map(|i| DocVal::Str(i.to_string())),
        1 => any::<f64>().prop_map(|f| DocVal::Str(f.to_string())),
    ]
    .boxed()
}

pub fn run(tier: &str, seed: u64) -> i32 {
    let mut report = Report::new(ID, tier, seed);
    report.rule = "exhaustive part: operator forms {bare number, =c >c >=c <c <=c patterns, int()/flt()/str() key \
        casts, not(k), lists, condition comparisons int(f) op c / c op int(f) / flt(..), two-field int/flt/str \
        comparisons} x boundary constants (i64::MIN, -1, 0, 1, 2, 2^53, i64::MAX-1, i64::MAX; 0.5, 0.0, 1.0, 2.5, \
        -2.5, 9.3e18, 2^53+1) x 58 field values (signed/unsigned 64-bit extremes, doubles incl. NaN/inf/+-0/2^63, \
        numeric and non-numeric strings, booleans, null, containers, absent); sampled part: random and \
        boundary-biased i64/u64/f64 against random constants. Engine three-valued result (probe C and not (C)) must \
        be admissible for exact arithmetic. Also: wide or-groups (100-380 numeric entries / distinct numeric fields) and \
        disjunctions of 3-5 conjunctions holding int()/flt() comparisons against numbers, numeric strings and \
        booleans. Every document is also matched against the rule optimised with the default switches and with one further switch set; a verdict that differs from the rule as loaded must be explained by the known findings K1 / K2 (relaxed reference for that switch set). Non-trivial: a rule whose documents give both a true and a non-true \
        result; distinct by rule text."
        .into();
    report.assumptions = vec![
        "cross-kind comparisons (float field vs integer constant, unsigned > i64::MAX vs signed) may be false or exact; same-kind comparisons are exact".into(),
        "int() of a non-integral double may round either way; of NaN / infinite / out-of-range doubles it is never true".into(),
        "str() text is Rust's Display of the value".into(),
    ];
    let findings = load_findings();
    replay_findings(&mut report, &findings, &judge);
    let cases = build_cases();
    let chunks: Vec<Report> = par_run(|w, n| {
        let mut sub = report.sub();
        for (i, c) in cases.iter().enumerate() {
            if i % n != w {
                continue;
            }
            let out = judge(c);
            sub.label(c.extra["form"].as_str().unwrap_or("?"));
            sub.record(c, out);
        }
        sub
    });
    for s in chunks {
        report.merge(s);
    }
    // sampled part
    let n = if tier == "thorough" { 600_000 } else { 40_000 };
    let strat = || {
        (
            0usize..8,
            prop::sample::select(vec!["=", ">", ">=", "<", "<="]),
            prop_oneof![
                any::<i64>(),
                prop::sample::select(vec![i64::MIN, -1, 0, 1, i64::MAX]),
                (0u32..63, -1i64..=1).prop_map(|(k, d)| (1i64 << k).wrapping_add(d)),
            ],
            any::<f64>().prop_filter("finite", |f| f.is_finite()),
            prop::collection::vec(rand_num(), 6),
            prop::collection::vec(rand_num(), 6),
        )
    };
    gen::drive(
        &mut report,
        2,
        n,
        strat,
        |(form, op, ci, cf, xs, ys): &(usize, &str, i64, f64, Vec<DocVal>, Vec<DocVal>)| {
            let cop = OPS.iter().find(|(p, _)| p == op).unwrap().1;
            let mut docs: Vec<DObj> = xs.iter().map(|v| DObj(vec![("n".to_string(), v.clone())])).collect();
            // documents holding the constant itself and its neighbours
            for d in [-1i64, 0, 1] {
                docs.push(DObj(vec![("n".to_string(), DocVal::Int(ci.saturating_add(d)))]));
            }
            docs.push(DObj(vec![("n".to_string(), DocVal::Float(*cf))]));
            let cfs = {
                let t = format!("{cf:?}");
                if t.contains('e') || !t.contains('.') {
                    format!("{:.3}", cf)
                } else {
                    t
                }
            };
            let (body, cond) = match form {
                0 => (format!("    n: '{op}{ci}'\n"), "A".to_string()),
                1 => (format!("    int(n): '{op}{ci}'\n"), "A".to_string()),
                2 => (format!("    n: '{op}{cfs}'\n"), "A".to_string()),
                3 => (format!("    flt(n): '{op}{cfs}'\n"), "A".to_string()),
                4 => ("    zz: zz\n".to_string(), format!("int(n) {cop} {ci}")),
                5 => ("    zz: zz\n".to_string(), format!("{cfs} {cop} flt(n)")),
                6 => {
                    for (d, y) in docs.iter_mut().zip(ys.iter()) {
                        d.0.push(("m".to_string(), y.clone()));
                    }
                    ("    zz: zz\n".to_string(), format!("int(n) {cop} int(m)"))
                }
                _ => {
                    for (d, y) in docs.iter_mut().zip(ys.iter()) {
                        d.0.push(("m".to_string(), y.clone()));
                    }
                    ("    zz: zz\n".to_string(), format!("flt(n) {cop} flt(m)"))
                }
            };
            let mut c = Case::new("c09.random");
            c.rules = rule_texts(&body, &cond);
            c.docs = docs;
            c.extra = json!({"form": form});
            vec![c]
        },
        judge,
        |_, _| {},
    );
    // numeric predicates in rules the optimiser restructures: wide or-groups (hundreds of numeric
    // entries on one field, hundreds of distinct numeric fields) and disjunctions of conjunctions
    // that hold cast comparisons (matrix rows), against numbers, numeric strings and booleans
    gen::drive(
        &mut report,
        4,
        if tier == "thorough" { 600 } else { 60 },
        || (gen::rule_wide(), prop::collection::vec(any::<u16>(), 24)),
        |(rule, picks): &(crate::spec::RuleSpec, Vec<u16>)| {
            let mut c = Case::new("c09.wide");
            c.rules = vec![rule.text(), rule.negated_text()];
            c.docs = gen::wide_docs(rule, picks);
            c.extra = json!({"form": "wide"});
            vec![c]
        },
        judge,
        |_, rep| rep.label("wide_or_group_rule"),
    );
    gen::drive(
        &mut report,
        6,
        if tier == "thorough" { 60_000 } else { 4_000 },
        matrix_shaped_strategy,
        |(blocks, vals, negate): &(Vec<(u8, &str, i64, u8, u8)>, Vec<(u8, i64)>, bool)| {
            let (cond, body, docs) = matrix_shaped(blocks, vals, *negate);
            let mk = |c: &str| format!("detection:\n{body}  condition: {c}\ntrue_positives: []\ntrue_negatives: []\n");
            let mut c = Case::new("c09.matrix_shaped");
            c.rules = vec![mk(&cond), mk(&format!("not ({cond})"))];
            c.docs = docs;
            c.extra = json!({"form": "matrix-shaped"});
            vec![c]
        },
        judge,
        |_, rep| rep.label("disjunction_of_cast_conjunctions"),
    );
    // long lists of integers: a run lo..hi with some members left out and some written twice (so
    // that the count of entries says nothing about the holes), as bare numbers or `=n` patterns,
    // under a plain key, int(), str() or not(); the field takes every value of the span and its
    // neighbours, as signed / unsigned integer, numeric string and double
    gen::drive(
        &mut report,
        7,
        if tier == "thorough" { 30_000 } else { 1_500 },
        || {
            (
                prop_oneof![Just(0i64), Just(80), Just(-20), Just(i64::MAX - 40), Just(i64::MIN), -100i64..100],
                8usize..40,
                prop::collection::vec(any::<u16>(), 0..4),
                prop::collection::vec(any::<u16>(), 0..4),
                0u8..5,
                0u8..3,
                any::<u16>(),
            )
        },
        |(lo, len, holes, dups, key, spelling, rot): &(i64, usize, Vec<u16>, Vec<u16>, u8, u8, u16)| {
            let span: Vec<i64> = (0..*len as i64).map(|i| lo.saturating_add(i)).collect();
            let inner = |p: &u16| 1 + ((*p as usize * (span.len() - 2)) >> 16);
            let hole_at: Vec<usize> = holes.iter().map(inner).collect();
            let mut members: Vec<i64> = span.iter().enumerate().filter(|(i, _)| !hole_at.contains(i)).map(|(_, v)| *v).collect();
            for d in dups {
                let v = members[(*d as usize * members.len()) >> 16];
                members.push(v);
            }
            let r = (*rot as usize * members.len()) >> 16;
            members.rotate_left(r);
            let key_text = match key {
                0 | 1 => "n".to_string(),
                2 => "int(n)".to_string(),
                3 => "not(n)".to_string(),
                _ => "str(n)".to_string(),
            };
            let mut body = format!("    {key_text}:\n");
            for (i, m) in members.iter().enumerate() {
                match (spelling, i % 2) {
                    (0, _) | (2, 0) => body.push_str(&format!("    - {m}\n")),
                    _ => body.push_str(&format!("    - '={m}'\n")),
                }
            }
            if *key == 4 {
                // under str() the members are texts
                body = format!("    {key_text}:\n");
                for m in &members {
                    body.push_str(&format!("    - '{m}'\n"));
                }
            }
            let mut docs = vec![DObj::default()];
            for v in std::iter::once(lo.saturating_sub(1)).chain(span.iter().cloned()).chain(std::iter::once(span.last().unwrap().saturating_add(1))) {
                docs.push(DObj(vec![("n".to_string(), DocVal::Int(v))]));
                if v >= 0 {
                    docs.push(DObj(vec![("n".to_string(), DocVal::UInt(v as u64))]));
                }
                if hole_at.iter().any(|h| span[*h] == v) || v % 5 == 0 {
                    docs.push(DObj(vec![("n".to_string(), DocVal::Str(v.to_string()))]));
                    if v.unsigned_abs() < (1 << 52) {
                        docs.push(DObj(vec![("n".to_string(), DocVal::Float(v as f64))]));
                    }
                }
            }
            let mut c = Case::new("c09.integer_list");
            c.rules = rule_texts(&body, "A");
            c.docs = docs;
            c.extra = json!({"form": "integer-list", "members": members.len(), "holes": hole_at.len(), "duplicates": dups.len()});
            vec![c]
        },
        judge,
        |(_, _, holes, dups, _, _, _), rep| {
            rep.label("long_integer_list");
            if !holes.is_empty() && holes.len() == dups.len() {
                rep.label("integer_list_duplicates_balance_holes");
            }
        },
    );
    report.finish()
}
