//! C01 Optimisation never changes a verdict (engine vs engine, all 16 switch sets).

use std::sync::OnceLock;

use proptest::prelude::*;

use crate::checks::c02::yaml_to_dobj;
use crate::common::*;
use crate::engine::{self, Load, Switches};
use crate::gen;
use crate::reference::{self, verdict_admissible, EvalOpts, Evaluator};
use crate::spec::RuleSpec;

pub const ID: &str = "C01";

fn active() -> &'static std::collections::HashSet<String> {
    static A: OnceLock<std::collections::HashSet<String>> = OnceLock::new();
    A.get_or_init(|| active_signatures(&load_findings(), ID))
}

fn condition_of(rule_text: &str) -> String {
    serde_yaml::from_str::<serde_yaml::Value>(rule_text)
        .ok()
        .and_then(|v| v.get("detection").and_then(|d| d.get("condition")).and_then(|c| c.as_str()).map(|s| s.to_string()))
        .unwrap_or_default()
}

fn judge_impl(case: &Case, strict: bool) -> Outcome {
    let text = &case.rules[0];
    let rule = match engine::load_text(text) {
        Load::Ok(r) => r,
        Load::Rejected(_) => return Outcome::Skip("rule does not load".into()),
        Load::Panicked(p) => return Outcome::Violation(format!("loader panicked: {p}")),
    };
    let mut base = vec![];
    for (i, d) in case.docs.iter().enumerate() {
        match engine::matches(&rule, d) {
            Ok(b) => base.push(b),
            Err(p) => return Outcome::Violation(format!("unoptimised matches() panicked on doc #{i}: {p}")),
        }
    }
    let unopt_display = rule.detection.expression.to_string();
    let switch_sets: Vec<Switches> = match case.switches {
        Some(b) => vec![Switches::from_bits(b)],
        None => Switches::all(),
    };
    let cond = condition_of(text);
    let cond_has_quant = cond.contains("all(") || cond.contains("of(");
    let mut refrule: Option<Result<reference::RefRule, ()>> = None;
    let mut labels: Vec<&'static str> = vec![];
    let mut evals = 0u64;
    let mut changed = false;
    let mut known: Option<String> = None;
    for sw in switch_sets {
        let opt = match engine::optimise(&rule, sw) {
            Ok(o) => o,
            Err(p) => return Outcome::Violation(format!("optimise({}) panicked: {p}", sw.show())),
        };
        if sw.bits() == 15 {
            let d = opt.detection.expression.to_string();
            if d != unopt_display {
                changed = true;
            }
            if d.contains("matrix(") {
                labels.push("default_opt_has_matrix");
            }
            if d.contains("aho_corasick(") {
                labels.push("default_opt_has_automaton");
            }
            if d.contains("regex_set(") {
                labels.push("default_opt_has_regex_set");
            }
        }
        for (i, d) in case.docs.iter().enumerate() {
            let got = match engine::matches(&opt, d) {
                Ok(b) => b,
                Err(p) => {
                    return Outcome::Violation(format!(
                        "matches() of the rule optimised with {} panicked on doc #{i} {}: {p}",
                        sw.show(),
                        d.show()
                    ))
                }
            };
            evals += 1;
            if got == base[i] {
                continue;
            }
            let msg = format!(
                "doc #{i} {}: unoptimised verdict {} but optimised ({}) verdict {}; optimised expression: {}",
                d.show(),
                base[i],
                sw.show(),
                got,
                opt.detection.expression
            );
            if strict {
                return Outcome::Violation(msg);
            }
            // K5: coalesce off, shake or matrix on, condition-level quantifier
            if !sw.coalesce && (sw.shake || sw.matrix) && cond_has_quant && active().contains("K5") {
                known = Some("K5".into());
                continue;
            }
            // K1 / K2: explained by and-reordering or double-negation removal?
            if active().contains("K1K2") {
                if refrule.is_none() {
                    refrule = Some(reference::load_rule_text(text, false).map_err(|_| ()));
                }
                if let Some(Ok(rr)) = &refrule {
                    let ev = Evaluator::new(rr, EvalOpts { relaxed: true, shake: sw.shake, matrix: sw.matrix, engine_exact: true, wide: false });
                    let set = ev.eval(d);
                    if verdict_admissible(set, got) {
                        known = Some("K1K2".into());
                        continue;
                    }
                }
            }
            return Outcome::Violation(msg);
        }
    }
    if let Some(k) = known {
        return Outcome::Known(k);
    }
    let varied = base.iter().any(|b| *b) && base.iter().any(|b| !*b);
    if base.iter().any(|b| *b) {
        labels.push("rule_matches_some_document");
    }
    Outcome::Pass {
        nontrivial: if changed && varied { Some(hash_str(text)) } else { None },
        evaluations: evals,
        labels,
    }
}

pub fn judge(case: &Case) -> Outcome {
    judge_impl(case, false)
}
pub fn judge_strict(case: &Case) -> Outcome {
    judge_impl(case, true)
}

pub fn make_case(rule: &RuleSpec, docs: Vec<crate::model::DObj>) -> Case {
    let mut c = Case::new("c01.diff");
    c.rules = vec![rule.text()];
    c.docs = docs;
    c
}

pub fn run(tier: &str, seed: u64) -> i32 {
    let mut report = Report::new(ID, tier, seed);
    report.rule = "rules from grammar G (half of them negation-free) x all 16 combinations of the coalesce / shake / \
        rewrite / matrix switches x 8 recipe documents, plus the repository's rule files with their own example \
        documents. Oracle: the optimised rule gives the verdict of the unoptimised rule on every document and \
        optimise()/matches() never panic. A mismatch is attributed to a known finding only if (K5) coalesce is off, \
        shake or matrix on and the condition holds all()/of(), or (K1/K2) the optimised verdict is admissible for the \
        reference interpreter relaxed by exactly 'and may yield any non-true operand's result' and 'a double \
        negation may cancel'; anything else is a violation. Further streams: optimiser-shaped rules, same-holder nested \
        rules, same-field rules (lists, quantifiers, case twins), wide or-groups (100-380 mappings), ~300 deterministic \
        case-twin rules in both orders, and regexes that compile alone but not as one set. Non-trivial: the default optimisation changes the \
        expression structurally and the documents give both verdicts; distinct by rule text."
        .into();
    report.assumptions = vec![
        "K1 (double negation removal), K2 (and-reordering under negation) and K5 (identifier bodies restructured when coalesce is off) are known findings; mismatches they explain are counted, not reported".into(),
    ];
    let findings = load_findings();
    replay_findings(&mut report, &findings, &judge_strict);
    repo_rules(&mut report);

    let n = if tier == "thorough" { 400_000 } else { 12_000 };
    let expand = |(rule, recipes): &(RuleSpec, Vec<gen::DocRecipe>)| {
        if !rule.well_formed() {
            return vec![];
        }
        let docs = recipes.iter().map(|r| gen::build_doc(rule, r)).collect();
        vec![make_case(rule, docs)]
    };
    let label = |(rule, _): &(RuleSpec, Vec<gen::DocRecipe>), rep: &mut Report| {
        if rule.has_negation() {
            rep.label("rule_with_negation");
        } else {
            rep.label("rule_negation_free");
        }
        if rule.cond.has_quantifier() {
            rep.label("rule_with_condition_quantifier");
        }
    };
    for (stream, opts, count) in [
        (10u64, gen::RuleOpts { negation: false, ..Default::default() }, n / 3),
        (11u64, gen::RuleOpts::default(), n / 3),
    ] {
        gen::drive(
            &mut report,
            stream,
            count,
            || (gen::rule(opts), prop::collection::vec(gen::doc_recipe(), 8)),
            expand,
            judge,
            label,
        );
    }
    for (stream, neg, count) in [(12u64, false, n / 6), (13u64, true, n / 6)] {
        gen::drive(
            &mut report,
            stream,
            count,
            || (gen::rule_focus(neg), prop::collection::vec(gen::doc_recipe(), 8)),
            expand,
            judge,
            |v, rep| {
                rep.label("optimiser_shaped_rule");
                label(v, rep)
            },
        );
    }
    // nested blocks on one holder, over arrays of objects whose elements satisfy different blocks
    for (stream, neg) in [(15u64, false), (16u64, true)] {
        gen::drive(
            &mut report,
            stream,
            n / 12,
            || (gen::rule_nested_focus(neg), prop::collection::vec((any::<u16>(), any::<u8>()), 24)),
            |(rule, picks): &(RuleSpec, Vec<(u16, u8)>)| {
                if !rule.well_formed() {
                    return vec![];
                }
                vec![make_case(rule, gen::nested_docs(rule, picks))]
            },
            judge,
            |_, rep| rep.label("same_holder_nested_rule"),
        );
    }
    // everything about one field (mixed modifiers, negations, quantifiers) x every value kind
    gen::drive(
        &mut report,
        17,
        n / 8,
        gen::rule_same_field_focus,
        |rule: &RuleSpec| {
            if !rule.well_formed() {
                return vec![];
            }
            vec![make_case(rule, gen::same_field_docs_for(rule, "f1"))]
        },
        judge,
        |_, rep| rep.label("same_field_rule"),
    );
    // disjunctions of conjunctions that hold cast comparisons with the constant on either side
    // (matrix rows with comparison cells), against numbers, numeric strings and booleans
    gen::drive(
        &mut report,
        18,
        n / 8,
        crate::checks::c09::matrix_shaped_strategy,
        |(blocks, vals, negate): &(Vec<(u8, &str, i64, u8, u8)>, Vec<(u8, i64)>, bool)| {
            let (cond, body, docs) = crate::checks::c09::matrix_shaped(blocks, vals, *negate);
            let mut c = Case::new("c01.diff");
            c.rules = vec![format!("detection:\n{body}  condition: {cond}\ntrue_positives: []\ntrue_negatives: []\n")];
            c.docs = docs;
            vec![c]
        },
        judge,
        |_, rep| rep.label("disjunction_of_cast_conjunctions"),
    );
    // wide or-groups (matrix guard at 256 entries, column keys beyond ASCII)
    gen::drive(
        &mut report,
        14,
        if tier == "thorough" { 600 } else { 80 },
        || (gen::rule_wide(), prop::collection::vec(any::<u16>(), 24)),
        |(rule, picks): &(RuleSpec, Vec<u16>)| vec![make_case(rule, gen::wide_docs(rule, picks))],
        judge,
        |_, rep| rep.label("wide_or_group_rule"),
    );
    // case twins (equal needles, one flag each) in both orders under several connective shapes
    {
        let twins = gen::twin_rules();
        let subs: Vec<Report> = par_run(|w, n| {
            let mut sub = report.sub();
            for (i, (a, b, docs)) in twins.iter().enumerate() {
                if i % n != w {
                    continue;
                }
                for text in [a, b] {
                    let mut c = Case::new("c01.diff");
                    c.rules = vec![text.clone()];
                    c.docs = docs.clone();
                    let out = judge(&c);
                    sub.label("case_twin_rule");
                    sub.record(&c, out);
                }
            }
            sub
        });
        for s in subs {
            report.merge(s);
        }
    }
    // regexes that compile on their own but not as one set (the optimiser has to leave them apart,
    // with their case flags), against values that match only through case folding
    for (body, cond) in [
        ("  A:\n  - f1: 'i?a\\w{100}'\n  - f1: 'i?b\\w{100}'\n  - f1: 'i?c\\w{100}'\n", "A"),
        ("  A:\n    f1: 'i?a\\w{100}'\n  B:\n    f1: 'i?b\\w{100}'\n  C:\n    f1: 'i?c\\w{100}'\n", "A or B or C"),
        ("  A:\n  - f1: '?a\\w{100}'\n  - f1: 'i?b\\w{100}'\n  - f1: '?c\\w{100}'\n  - f1: 'i?d\\w{100}'\n  - f1: 'i?e\\w{100}'\n", "A"),
        ("  A:\n  - str(f1): 'i?a\\w{100}'\n  - str(f1): 'i?b\\w{100}'\n  - str(f1): 'i?c\\w{100}'\n", "not A"),
    ] {
        let mut c = Case::new("c01.diff");
        c.rules = vec![format!("detection:\n{body}  condition: {cond}\ntrue_positives: []\ntrue_negatives: []\n")];
        c.docs = ["A", "B", "a", "C", "e", "E", "z"]
            .iter()
            .flat_map(|h| {
                [
                    crate::model::DObj(vec![("f1".to_string(), crate::model::DocVal::Str(format!("{h}{}", "x".repeat(100))))]),
                    crate::model::DObj(vec![("f1".to_string(), crate::model::DocVal::Str(format!("{h}{}", "X".repeat(100))))]),
                ]
            })
            .collect();
        let out = judge(&c);
        report.label("regexes_beyond_the_set_size_limit");
        report.record(&c, out);
    }
    report.finish()
}

fn repo_rules(report: &mut Report) {
    let dir = std::path::Path::new("/repo/tests/rules");
    let mut files: Vec<_> = match std::fs::read_dir(dir) {
        Ok(d) => d.filter_map(|e| e.ok()).map(|e| e.path()).collect(),
        Err(_) => return,
    };
    files.sort();
    for f in files {
        let Ok(text) = std::fs::read_to_string(&f) else { continue };
        let Ok(yaml) = serde_yaml::from_str::<serde_yaml::Value>(&text) else { continue };
        let mut docs = vec![crate::model::DObj::default()];
        for key in ["true_positives", "true_negatives"] {
            if let Some(serde_yaml::Value::Sequence(s)) = yaml.get(key) {
                docs.extend(s.iter().filter_map(yaml_to_dobj));
            }
        }
        let Some(det) = yaml.get("detection") else { continue };
        let mut c = Case::new("c01.repo_rule");
        c.rules = vec![engine::rule_text(det, &[], &[])];
        c.docs = docs;
        c.texts = vec![f.display().to_string()];
        let out = judge(&c);
        report.label("repo_rule_files");
        report.record(&c, out);
    }
}
