//! C10 Field paths resolve to exactly the addressed value.

use std::collections::HashMap;

use proptest::prelude::*;
use serde_json::json;
use tau_engine::{Document, Object, Value};

use crate::checks::c02;
use crate::common::*;
use crate::engine::guarded;
use crate::gen;
use crate::model::{resolve, DArr, DObj, DocVal};

pub const ID: &str = "C10";

/// Convert an engine value back into a DocVal (objects sorted by key).
pub fn value_to_docval(v: &Value<'_>) -> DocVal {
    match v {
        Value::Null => DocVal::Null,
        Value::Bool(b) => DocVal::Bool(*b),
        Value::Float(f) => DocVal::Float(*f),
        Value::Int(i) => DocVal::Int(*i),
        Value::UInt(u) => DocVal::UInt(*u),
        Value::String(s) => DocVal::Str(s.to_string()),
        Value::Array(a) => DocVal::Arr(DArr(a.iter().map(|x| value_to_docval(&x)).collect())),
        Value::Object(o) => {
            let mut keys: Vec<String> = o.keys().iter().map(|k| k.to_string()).collect();
            keys.sort();
            keys.dedup();
            DocVal::Obj(DObj(
                keys.into_iter()
                    .filter_map(|k| o.get(&k).map(|v| (k.clone(), value_to_docval(&v))))
                    .collect(),
            ))
        }
        #[allow(unreachable_patterns)]
        _ => DocVal::Null,
    }
}

pub fn sorted(v: &DocVal) -> DocVal {
    match v {
        DocVal::Arr(a) => DocVal::Arr(DArr(a.0.iter().map(sorted).collect())),
        DocVal::Obj(o) => {
            let mut es: Vec<(String, DocVal)> = o.0.iter().map(|(k, v)| (k.clone(), sorted(v))).collect();
            es.sort_by(|a, b| a.0.cmp(&b.0));
            DocVal::Obj(DObj(es))
        }
        other => other.clone(),
    }
}

fn same(a: &DocVal, b: &DocVal) -> bool {
    match (a, b) {
        (DocVal::Float(x), DocVal::Float(y)) => x.to_bits() == y.to_bits() || (x.is_nan() && y.is_nan()),
        (DocVal::Arr(x), DocVal::Arr(y)) => x.0.len() == y.0.len() && x.0.iter().zip(&y.0).all(|(p, q)| same(p, q)),
        (DocVal::Obj(x), DocVal::Obj(y)) => {
            x.0.len() == y.0.len() && x.0.iter().zip(&y.0).all(|((k, p), (l, q))| k == l && same(p, q))
        }
        _ => a == b,
    }
}

/// kind c10.find: docs[0] is the document, texts are the keys to look up.
/// Every representation's find() must equal the independent resolver for well-formed paths and
/// must not panic for any key.
/// A key with an indexed segment whose bracket content cannot be read as an index (`a[]`,
/// `a[last]`, `a[1x]`, `a[-1]`, an index beyond usize) addresses nothing: the lookup must be
/// missing, never the whole value of `a` or another element.
fn must_be_missing(key: &str) -> bool {
    key.split('.').any(|seg| {
        if let (Some(open), true) = (seg.find('['), seg.ends_with(']')) {
            let name = &seg[..open];
            let content = &seg[open + 1..seg.len() - 1];
            if name.is_empty() || name.contains(']') || content.contains('[') || content.contains(']') {
                return false;
            }
            let digits = content.strip_prefix('+').unwrap_or(content);
            let plain_index = !digits.is_empty() && digits.bytes().all(|b| b.is_ascii_digit());
            !plain_index || digits.trim_start_matches('0').len() > 19
        } else {
            false
        }
    })
}

/// A key in which some segment carries several indices (`a[0][1]`): the grammar has one index per
/// segment, so the lookup may be missing or may descend through every index, but it must not
/// stop at a shorter path. Returns the value of the full descent (None inside = nothing there), or
/// None if the key is not of this form.
fn resolve_multi(doc: &DObj, key: &str) -> Option<Option<DocVal>> {
    let mut cur: Option<DocVal> = None;
    let mut multi = false;
    let mut dead = false;
    for (n, seg) in key.split('.').enumerate() {
        let (name, mut rest) = match seg.find('[') {
            Some(i) => (&seg[..i], &seg[i..]),
            None => (seg, ""),
        };
        if name.is_empty() || name.contains(']') {
            return None;
        }
        let mut idx = vec![];
        while !rest.is_empty() {
            if !rest.starts_with('[') {
                return None;
            }
            let close = rest.find(']')?;
            let digits = &rest[1..close];
            if digits.is_empty() || digits.len() > 9 || !digits.bytes().all(|b| b.is_ascii_digit()) {
                return None;
            }
            idx.push(digits.parse::<usize>().ok()?);
            rest = &rest[close + 1..];
        }
        if idx.len() > 1 {
            multi = true;
        }
        if dead {
            continue;
        }
        let next = if n == 0 {
            doc.get_val(name).cloned()
        } else {
            match &cur {
                Some(DocVal::Obj(o)) => o.get_val(name).cloned(),
                _ => None,
            }
        };
        let mut v = next;
        for i in idx {
            v = match v {
                Some(DocVal::Arr(a)) => a.0.get(i).cloned(),
                _ => None,
            };
        }
        if v.is_none() {
            dead = true;
        }
        cur = v;
    }
    if multi {
        Some(if dead { None } else { cur })
    } else {
        None
    }
}

fn judge_find(case: &Case) -> Outcome {
    let doc = &case.docs[0];
    let norm = doc.normalised();
    let yaml = norm.to_yaml_mapping();
    let json = norm.to_json_value();
    let hm_yaml: HashMap<String, serde_yaml::Value> = norm.to_hashmap_yaml();
    let hm_doc: HashMap<String, DocVal> = doc.to_hashmap_docval();
    let mut evals = 0u64;
    let mut labels: Vec<&'static str> = vec![];
    let mut nontrivial = None;
    for key in &case.texts {
        let expected = resolve(doc, key);
        let expected_norm = resolve(&norm, key);
        // (name, lookup result)
        let mut results: Vec<(&str, Result<Option<DocVal>, String>, bool)> = vec![];
        results.push(("model", guarded(|| Object::find(doc, key).map(|v| value_to_docval(&v))), false));
        results.push(("yaml mapping", guarded(|| Object::find(&yaml, key).map(|v| value_to_docval(&v))), true));
        results.push((
            "hashmap<yaml>",
            guarded(|| Object::find(&hm_yaml, key).map(|v| value_to_docval(&v))),
            true,
        ));
        results.push(("hashmap<model>", guarded(|| Object::find(&hm_doc, key).map(|v| value_to_docval(&v))), false));
        if let Some(j) = &json {
            results.push(("serde_json value", guarded(|| Document::find(j, key).map(|v| value_to_docval(&v))), true));
        }
        for (name, res, normalised) in results {
            evals += 1;
            let got = match res {
                Ok(g) => g,
                Err(p) => return Outcome::Violation(format!("find({key:?}) on {name} panicked: {p}")),
            };
            let exp = if normalised { &expected_norm } else { &expected };
            if exp.is_err() && must_be_missing(key) {
                if let Some(g) = &got {
                    return Outcome::Violation(format!(
                        "find({key:?}) on {name} of {} returned {} although the index cannot be read: the field must be missing",
                        doc.show(),
                        g.show()
                    ));
                }
            }
            if exp.is_err() {
                let base = if normalised { &norm } else { doc };
                if let (Some(full), Some(g)) = (resolve_multi(base, key), &got) {
                    let ok = matches!(&full, Some(e) if same(&sorted(e), &sorted(g)));
                    if !ok {
                        return Outcome::Violation(format!(
                            "find({key:?}) on {name} of {} returned {} but descending through every index reaches {}: a shorter path was used",
                            doc.show(),
                            g.show(),
                            full.as_ref().map(|e| e.show()).unwrap_or("nothing".into()),
                        ));
                    }
                    labels.push("multi_index_key_resolved_or_missing");
                }
            }
            if let Ok(exp) = exp {
                let ok = match (exp, &got) {
                    (None, None) => true,
                    (Some(e), Some(g)) => same(&sorted(e), &sorted(g)),
                    _ => false,
                };
                if !ok {
                    return Outcome::Violation(format!(
                        "find({key:?}) on {name} of {} returned {} but the path addresses {}",
                        doc.show(),
                        got.as_ref().map(|g| g.show()).unwrap_or("nothing".into()),
                        exp.map(|e| e.show()).unwrap_or("nothing".into()),
                    ));
                }
            }
        }
        match &expected {
            Ok(Some(_)) => {
                labels.push("path_found");
                if key.contains('.') || key.contains('[') {
                    nontrivial = Some(hash_str(&format!("{}|{}", doc.show(), key)));
                }
            }
            Ok(None) => {
                labels.push("path_absent");
                // failing at a step that is not the first
                let first = key.split('.').next().unwrap_or("");
                if key.contains('.') && matches!(resolve(doc, first), Ok(Some(_))) {
                    labels.push("path_fails_after_first_step");
                    nontrivial = Some(hash_str(&format!("{}|{}", doc.show(), key)));
                }
            }
            Err(()) => labels.push("key_not_well_formed_totality_only"),
        }
    }
    Outcome::Pass { nontrivial, evaluations: evals, labels }
}

/// kind c10.rule_forms: rules = [dotted, not dotted, nested, not nested]; texts[0] = the dotted
/// path. Both forms are judged against the reference, and against each other whenever all
/// intermediate values are objects.
fn judge_forms(case: &Case) -> Outcome {
    let mut a = Case::new("c02.verdict");
    a.rules = case.rules[0..2].to_vec();
    a.docs = case.docs.clone();
    let mut b = Case::new("c02.verdict");
    b.rules = case.rules[2..4].to_vec();
    b.docs = case.docs.clone();
    let ra = match c02::eval_case(&a) {
        Ok(r) => r,
        Err(o) => return o,
    };
    let rb = match c02::eval_case(&b) {
        Ok(r) => r,
        Err(o) => return o,
    };
    let path = &case.texts[0];
    let segs: Vec<&str> = path.split('.').collect();
    let mut nontrivial = None;
    for (i, doc) in case.docs.iter().enumerate() {
        // are all intermediates objects?
        let mut all_obj = true;
        for n in 1..segs.len() {
            let prefix = segs[..n].join(".");
            if !matches!(resolve(doc, &prefix), Ok(Some(DocVal::Obj(_)))) {
                all_obj = false;
            }
        }
        if all_obj && (ra[i].0 == crate::engine::Tri::T) != (rb[i].0 == crate::engine::Tri::T) {
            return Outcome::Violation(format!(
                "doc #{i} {}: dotted key {path} gives {} but the nested-mapping form gives {} although every intermediate value is an object",
                doc.show(),
                ra[i].0.show(),
                rb[i].0.show()
            ));
        }
        if ra[i].0 == crate::engine::Tri::T || rb[i].0 == crate::engine::Tri::T {
            nontrivial = Some(hash_str(&format!("{}|{}", case.rules[0], doc.show())));
        }
    }
    Outcome::Pass { nontrivial, evaluations: 4 * case.docs.len() as u64, labels: vec![] }
}

pub fn judge(case: &Case) -> Outcome {
    match case.kind.as_str() {
        "c10.find" => judge_find(case),
        "c10.rule_forms" => judge_forms(case),
        // a rule over hundreds of distinct fields: every predicate has to be decided by its own
        // field, also after the optimiser has turned the rule into a matrix
        "c10.wide" => match c02::eval_case(case) {
            Ok(r) => Outcome::Pass {
                nontrivial: if r.iter().any(|x| x.0 == crate::engine::Tri::T) { Some(hash_str(&case.rules[0])) } else { None },
                evaluations: 6 * case.docs.len() as u64,
                labels: vec!["wide_rule"],
            },
            Err(o) => o,
        },
        _ => Outcome::Skip("unknown case kind".into()),
    }
}

// ---------------------------------------------------------------------------------------------
// Enumeration
// ---------------------------------------------------------------------------------------------

fn level0() -> Vec<DocVal> {
    vec![DocVal::s("v"), DocVal::UInt(7), DocVal::Null, DocVal::obj(vec![]), DocVal::arr(vec![])]
}

fn build_level(children: &[DocVal], keys: &[&str]) -> Vec<DocVal> {
    let mut out = vec![];
    // objects: each key absent or one of the children
    let mut objs: Vec<Vec<(String, DocVal)>> = vec![vec![]];
    for k in keys {
        let mut next = vec![];
        for o in &objs {
            next.push(o.clone());
            for c in children {
                let mut n = o.clone();
                n.push((k.to_string(), c.clone()));
                next.push(n);
            }
        }
        objs = next;
    }
    for o in objs {
        if !o.is_empty() {
            out.push(DocVal::Obj(DObj(o)));
        }
    }
    // arrays of one and two children
    for c in children {
        out.push(DocVal::arr(vec![c.clone()]));
    }
    for c in children.iter().take(4) {
        for d in children.iter().take(4) {
            out.push(DocVal::arr(vec![c.clone(), d.clone()]));
        }
    }
    out
}

pub fn documents() -> Vec<DObj> {
    let l0 = level0();
    let c0: Vec<DocVal> = vec![DocVal::s("v"), DocVal::obj(vec![]), DocVal::arr(vec![])];
    let mut l1 = l0.clone();
    l1.extend(build_level(&c0, &["a", "b"]));
    // representatives of level 1 used as children of level 2
    let reps: Vec<DocVal> = vec![
        DocVal::s("v"),
        DocVal::obj(vec![]),
        DocVal::arr(vec![]),
        DocVal::obj(vec![("a", DocVal::s("v"))]),
        DocVal::obj(vec![("b", DocVal::s("v")), ("c", DocVal::s("w"))]),
        DocVal::obj(vec![("a", DocVal::obj(vec![])), ("c", DocVal::s("w"))]),
        DocVal::arr(vec![DocVal::s("v")]),
        DocVal::arr(vec![DocVal::obj(vec![("a", DocVal::s("v"))]), DocVal::s("x")]),
        DocVal::arr(vec![DocVal::arr(vec![DocVal::s("v")])]),
        DocVal::arr(vec![DocVal::s("x"), DocVal::obj(vec![("c", DocVal::s("v"))]), DocVal::obj(vec![("a", DocVal::s("v"))])]),
    ];
    let mut l2 = l1.clone();
    l2.extend(build_level(&reps, &["a", "b"]));
    let bs: Vec<Option<DocVal>> = vec![
        None,
        Some(DocVal::s("B")),
        Some(DocVal::obj(vec![("a", DocVal::s("inner")), ("c", DocVal::s("v"))])),
        Some(DocVal::arr(vec![DocVal::s("v"), DocVal::obj(vec![("a", DocVal::s("v"))])])),
    ];
    let cs: Vec<Option<DocVal>> = vec![None, Some(DocVal::s("v"))];
    let mut docs = vec![];
    for a in std::iter::once(None).chain(l2.iter().cloned().map(Some)) {
        for b in &bs {
            for c in &cs {
                let mut d = DObj::default();
                if let Some(a) = &a {
                    d.set("a", a.clone());
                }
                if let Some(b) = b {
                    d.set("b", b.clone());
                }
                if let Some(c) = c {
                    d.set("c", c.clone());
                }
                docs.push(d);
            }
        }
    }
    docs
}

pub fn paths(max_len: usize) -> Vec<String> {
    let mut segs = vec![];
    for n in ["a", "b", "c"] {
        segs.push(n.to_string());
        for i in [0usize, 1, 2, 17] {
            segs.push(format!("{n}[{i}]"));
        }
    }
    // a later segment that is all digits is a name like any other (it does not index an array)
    let mut out: Vec<String> = vec!["a.0".into(), "a.1".into(), "b.1".into(), "a.b.0".into(), "b.1.a".into(), "a.0.a".into()];
    let mut layer: Vec<String> = vec![String::new()];
    for _ in 0..max_len {
        let mut next = vec![];
        for p in &layer {
            for s in &segs {
                next.push(if p.is_empty() { s.clone() } else { format!("{p}.{s}") });
            }
        }
        out.extend(next.iter().cloned());
        layer = next;
    }
    out
}

fn odd_keys() -> Vec<String> {
    [
        "", ".", "..", "a.", ".a", "a..b", "a[", "a]", "[", "]", "[]", "a[]", "a[+1]", "a[-1]", "a[ 1]", "a[1 ]",
        "a[18446744073709551616]", "a[18446744073709551615]", "a[0][1]", "a[0][0]", "a[1][0]", "a[0][0][0]", "a.a[0][0]",
        "a[0][0].a", "b[1][0]", "b[0][0]", "a.b[0][1]", "a[0][17]", "a[0]x", "a[[0]]", "[0]", "a.[0]",
        "a[0].", "a[0]..b", "é", "a.é", "é[0]", "a[٣]", "a[0x1]", "a[1e0]", "a.b.c.d.e.f.g.h", "a[00]", "a[01]",
        "a b", " a", "a ", "a\u{0}", "\u{0}", "\u{1}", "a[last]", "a[1x]", "a[x]", "b[]", "b[last]", "b[0x0]", "a.b[]",
        "a.b[x]", "b[99999999999999999999999]", "a[*]", "a[0,1]", "a[0:1]", "b[-0]",
    ]
    .iter()
    .map(|s| s.to_string())
    .collect()
}

pub fn run(tier: &str, seed: u64) -> i32 {
    let mut report = Report::new(ID, tier, seed);
    report.exhaustive = true;
    report.rule = "exhaustive part: documents {a: any of ~270 values of depth <= 3 built from scalars, {}, [], objects \
        over keys a/b, arrays of scalars / objects / arrays; b: absent | scalar | object | mixed array; c: absent | \
        scalar} x every path of 1..3 segments (thorough: 4) where a segment is a|b|c optionally indexed [0],[1],[2],[17]. \
        Object::find through five representations (hand-written Object, serde_yaml Mapping, HashMap<String, yaml>, \
        HashMap<String, model value>, serde_json Value) must equal the independent resolver (value identity, \
        not just kind). Rule level: every dotted path of 2-3 plain segments as key `p: v` and as nested mappings, \
        both judged against the reference and against each other when all intermediates are objects. Totality: \
        hand-picked degenerate keys and random key strings never panic; a key with several indices in one segment \
        is missing or fully descended, never a shorter path. Decoys: the same lookups on documents that also hold literal keys spelled like path fragments (`a[0]`, `a.b`, `a[0][1]`, `0`) at the top level and inside `a` - such a key is another key and never answers for a path. Wide rules (100-380 distinct fields, dense documents): every \
        predicate is decided by its own field, also after optimisation (reference + optimised agreement). Non-trivial: a lookup that succeeds \
        through >= 2 steps or an index, or fails at a step after the first; distinct by (document, path)."
        .into();
    report.assumptions = vec!["only well-formed paths (name or name[digits] segments) are compared with the resolver; other keys are checked for totality".into()];
    let findings = load_findings();
    replay_findings(&mut report, &findings, &judge);

    let docs = documents();
    let ps = paths(if tier == "thorough" { 4 } else { 3 });
    let odd = odd_keys();
    report.label_n("documents", docs.len() as u64);
    report.label_n("paths", ps.len() as u64);
    let subs: Vec<Report> = par_run(|w, n| {
        let mut sub = report.sub();
        for (i, d) in docs.iter().enumerate() {
            if i % n != w {
                continue;
            }
            let mut c = Case::new("c10.find");
            c.docs = vec![d.clone()];
            c.texts = ps.clone();
            c.texts.extend(odd.iter().cloned());
            let out = judge(&c);
            match out {
                Outcome::Violation(m) => {
                    // narrow down to the single failing key for the replay file
                    let mut narrowed = false;
                    for k in &c.texts {
                        let mut one = Case::new("c10.find");
                        one.docs = vec![d.clone()];
                        one.texts = vec![k.clone()];
                        if let Outcome::Violation(m1) = judge(&one) {
                            sub.record(&one, Outcome::Violation(m1));
                            narrowed = true;
                            break;
                        }
                    }
                    if !narrowed {
                        sub.record(&c, Outcome::Violation(m));
                    }
                }
                Outcome::Pass { evaluations, labels, .. } => {
                    // distinct non-trivial (doc, path) pairs are counted per lookup below
                    sub.evaluations += evaluations;
                    sub.cases += 1;
                    for l in labels {
                        sub.label(l);
                    }
                    let ds = d.show();
                    for k in &c.texts {
                        match resolve(d, k) {
                            Ok(Some(_)) if k.contains('.') || k.contains('[') => {
                                sub.nontrivial.insert(hash_str(&format!("{ds}|{k}")));
                            }
                            Ok(None) if k.contains('.') => {
                                let first = k.split('.').next().unwrap_or("");
                                if matches!(resolve(d, first), Ok(Some(_))) {
                                    sub.nontrivial.insert(hash_str(&format!("{ds}|{k}")));
                                }
                            }
                            _ => {}
                        }
                    }
                    if i % 397 == 0 {
                        sub.sample(json!({"document": ds, "paths_tried": c.texts.len(),
                            "examples": c.texts.iter().step_by(211).take(6).map(|k| json!({"path": k,
                                "resolves_to": resolve(d, k).ok().flatten().map(|v| v.show())})).collect::<Vec<_>>()}));
                    }
                }
                other => sub.record(&c, other),
            }
        }
        sub
    });
    for s in subs {
        report.merge(s);
    }

    // decoys: documents that also hold keys *spelled* like path fragments (`a[0]`, `a.b`, `a[0][1]`,
    // `0`) at the top level and inside `a`. A path is walked segment by segment; a literal key that
    // looks like a piece of the path is another key and must never answer for it.
    {
        let spelled = [
            "a[0]", "a[1]", "a[0][1]", "a[0][0]", "b[0]", "b[1][0]", "a.b", "a.a", "a.b[0]", "a[0].a", "a.0", "0", "a.b.c", "[0]",
            "a[", "a]", "a.", ".a", "a[0", "a 0",
        ];
        let values = [
            DocVal::arr(vec![DocVal::s("p"), DocVal::s("q")]),
            DocVal::arr(vec![DocVal::arr(vec![DocVal::s("r"), DocVal::s("s")]), DocVal::obj(vec![("a", DocVal::s("t"))])]),
            DocVal::obj(vec![("a", DocVal::s("u")), ("b", DocVal::arr(vec![DocVal::s("w")]))]),
            DocVal::s("decoy"),
        ];
        let mut bases: Vec<DObj> = vec![DObj::default()];
        bases.extend(docs.iter().step_by(if tier == "thorough" { 11 } else { 67 }).cloned());
        let mut decoys: Vec<DObj> = vec![];
        for b in &bases {
            for k in spelled {
                for v in &values {
                    let mut d = b.clone();
                    d.set(k, v.clone());
                    decoys.push(d);
                    if let Some(DocVal::Obj(inner)) = b.get_val("a") {
                        let mut inner = inner.clone();
                        inner.set(k, v.clone());
                        let mut d = b.clone();
                        d.set("a", DocVal::Obj(inner));
                        decoys.push(d);
                    }
                }
            }
        }
        let mut keys = paths(2);
        keys.extend(odd.iter().cloned());
        keys.extend(spelled.iter().map(|s| s.to_string()));
        report.label_n("decoy_documents", decoys.len() as u64);
        let subs: Vec<Report> = par_run(|w, n| {
            let mut sub = report.sub();
            for (i, d) in decoys.iter().enumerate() {
                if i % n != w {
                    continue;
                }
                let mut c = Case::new("c10.find");
                c.docs = vec![d.clone()];
                c.texts = keys.clone();
                match judge(&c) {
                    Outcome::Violation(m) => {
                        let mut narrowed = false;
                        for k in &c.texts {
                            let mut one = Case::new("c10.find");
                            one.docs = vec![d.clone()];
                            one.texts = vec![k.clone()];
                            if let Outcome::Violation(m1) = judge(&one) {
                                sub.record(&one, Outcome::Violation(m1));
                                narrowed = true;
                                break;
                            }
                        }
                        if !narrowed {
                            sub.record(&c, Outcome::Violation(m));
                        }
                    }
                    Outcome::Pass { evaluations, labels, nontrivial } => {
                        sub.evaluations += evaluations;
                        sub.cases += 1;
                        sub.label("decoy_document");
                        for l in labels {
                            sub.label(l);
                        }
                        if let Some(h) = nontrivial {
                            sub.nontrivial.insert(h);
                        }
                        if i % 997 == 0 {
                            sub.sample(json!({"decoy_document": d.show(), "paths_tried": c.texts.len()}));
                        }
                    }
                    other => sub.record(&c, other),
                }
            }
            sub
        });
        for s in subs {
            report.merge(s);
        }
    }

    // rule level: dotted vs nested mapping forms
    let mut form_cases = vec![];
    let names = ["a", "b", "c"];
    let mut dotted: Vec<Vec<&str>> = vec![];
    for x in names {
        for y in names {
            dotted.push(vec![x, y]);
            for z in names {
                dotted.push(vec![x, y, z]);
            }
        }
    }
    let rule_docs: Vec<DObj> = docs.iter().step_by(if tier == "thorough" { 1 } else { 3 }).cloned().collect();
    for segs in &dotted {
        let path = segs.join(".");
        let mk = |body: &str, cond: &str| {
            format!("detection:\n  A:\n{body}  condition: {cond}\ntrue_positives: []\ntrue_negatives: []\n")
        };
        let dotted_body = format!("    {path}: v\n");
        let mut nested_body = String::new();
        for (i, s) in segs.iter().enumerate() {
            let indent = " ".repeat(4 + 2 * i);
            if i + 1 == segs.len() {
                nested_body.push_str(&format!("{indent}{s}: v\n"));
            } else {
                nested_body.push_str(&format!("{indent}{s}:\n"));
            }
        }
        for chunk in rule_docs.chunks(200) {
            let mut c = Case::new("c10.rule_forms");
            c.rules = vec![
                mk(&dotted_body, "A"),
                mk(&dotted_body, "not (A)"),
                mk(&nested_body, "A"),
                mk(&nested_body, "not (A)"),
            ];
            c.texts = vec![path.clone()];
            c.docs = chunk.to_vec();
            form_cases.push(c);
        }
    }
    let subs: Vec<Report> = par_run(|w, n| {
        let mut sub = report.sub();
        for (i, c) in form_cases.iter().enumerate() {
            if i % n != w {
                continue;
            }
            let out = judge(c);
            if let Outcome::Violation(m) = &out {
                // narrow to one document
                let mut done = false;
                for d in &c.docs {
                    let mut one = c.clone();
                    one.docs = vec![d.clone()];
                    if let Outcome::Violation(m1) = judge(&one) {
                        sub.record(&one, Outcome::Violation(m1));
                        done = true;
                        break;
                    }
                }
                if !done {
                    sub.record(c, Outcome::Violation(m.clone()));
                }
                continue;
            }
            sub.label("rule_form_case");
            sub.record(c, out);
        }
        sub
    });
    for s in subs {
        report.merge(s);
    }

    // keys whose segments hold blanks (`Event Data.Image Path`): the whole name addresses the field,
    // never its first word
    {
        let o = |es: Vec<(&str, DocVal)>| DocVal::obj(es);
        let docs: Vec<DObj> = vec![
            DObj::default(),
            DObj(vec![("a b".into(), DocVal::s("v"))]),
            DObj(vec![("a".into(), DocVal::s("v"))]),
            DObj(vec![("a".into(), DocVal::s("v")), ("b".into(), DocVal::s("v"))]),
            DObj(vec![("a b".into(), o(vec![("c", DocVal::s("v"))]))]),
            DObj(vec![("a".into(), o(vec![("c", DocVal::s("v"))]))]),
            DObj(vec![("c".into(), o(vec![("a b", DocVal::s("v"))]))]),
            DObj(vec![("c".into(), o(vec![("a", DocVal::s("v"))]))]),
            DObj(vec![("a b".into(), o(vec![("c d", DocVal::s("v"))]))]),
            DObj(vec![("a b".into(), o(vec![("c", DocVal::s("x"))])), ("a".into(), o(vec![("c", DocVal::s("v"))]))]),
            DObj(vec![("a b".into(), DocVal::Int(1)), ("a".into(), DocVal::Int(2))]),
        ];
        for body in [
            "    'a b': v\n", "    'a b.c': v\n", "    'c.a b': v\n", "    'a b.c d': v\n", "    'int(a b)': 1\n", "    'str(a b)': '1'\n",
            "    'not(a b)': v\n", "    'all(a b)': [v, '*v*']\n", "    'a b':\n      c: v\n", "    c:\n      'a b': v\n",
        ] {
            let mk = |cond: &str| format!("detection:\n  A:\n{body}  condition: {cond}\ntrue_positives: []\ntrue_negatives: []\n");
            let mut c = Case::new("c10.wide");
            c.rules = vec![mk("A"), mk("not (A)")];
            c.docs = docs.clone();
            let out = judge(&c);
            report.label("key_with_blanks");
            report.record(&c, out);
        }
    }
    // nested blocks on one holder, against objects and arrays of objects mixed with scalars
    gen::drive(
        &mut report,
        7,
        if tier == "thorough" { 60_000 } else { 2_000 },
        || (gen::rule_nested_focus(true), prop::collection::vec((any::<u16>(), any::<u8>()), 24)),
        |(rule, picks): &(crate::spec::RuleSpec, Vec<(u16, u8)>)| {
            if !rule.well_formed() {
                return vec![];
            }
            let mut c = Case::new("c10.wide");
            c.rules = vec![rule.text(), rule.negated_text()];
            c.docs = gen::nested_docs(rule, picks);
            vec![c]
        },
        judge,
        |_, rep| rep.label("nested_focus_rule"),
    );
    // wide rules
    gen::drive(
        &mut report,
        6,
        if tier == "thorough" { 600 } else { 60 },
        || (gen::rule_wide(), prop::collection::vec(any::<u16>(), 24)),
        |(rule, picks): &(crate::spec::RuleSpec, Vec<u16>)| {
            let mut c = Case::new("c10.wide");
            c.rules = vec![rule.text(), rule.negated_text()];
            c.docs = gen::wide_docs(rule, picks);
            vec![c]
        },
        judge,
        |_, _| {},
    );

    // totality on random keys
    let n = if tier == "thorough" { 300_000 } else { 30_000 };
    let some_docs: Vec<DObj> = docs.iter().step_by(97).cloned().collect();
    gen::drive(
        &mut report,
        5,
        n,
        || (prop_oneof!["[abc\\[\\]\\.0-9]{0,10}", "[ab](\\[[01]\\]){2,3}(\\.[ab](\\[[01]\\]){0,2})?", "[abc\\[\\]\\.0-9+\\- é\u{0}]{0,12}", "\\PC{0,8}"], any::<u16>()),
        |(key, di): &(String, u16)| {
            let mut c = Case::new("c10.find");
            c.docs = vec![some_docs[(*di as usize * some_docs.len()) >> 16].clone()];
            c.texts = vec![key.clone()];
            vec![c]
        },
        judge,
        |_, rep| rep.label("random_key"),
    );
    report.finish()
}
