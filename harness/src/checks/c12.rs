//! C12 Loading, optimising and matching are deterministic and pure.

use proptest::prelude::*;

use crate::common::*;
use crate::engine::{self, Load, Switches};
use crate::gen;
use crate::model::{DObj, DocVal};
use crate::spec::RuleSpec;

pub const ID: &str = "C12";
const REPEATS: usize = 24;

fn snapshot(rule: &tau_engine::Rule) -> String {
    let mut ids: Vec<(String, String)> =
        rule.detection.identifiers.iter().map(|(k, v)| (k.clone(), v.to_string())).collect();
    ids.sort();
    format!(
        "{} || {}",
        rule.detection.expression,
        ids.iter().map(|(k, v)| format!("{k}={v}")).collect::<Vec<_>>().join(" ; ")
    )
}

fn verdict_vec(rule: &tau_engine::Rule, docs: &[DObj]) -> Result<Vec<bool>, String> {
    docs.iter().map(|d| engine::matches(rule, d)).collect()
}

/// Deterministic permutation of 0..n from a seed.
fn permutation(n: usize, seed: u64) -> Vec<usize> {
    let mut idx: Vec<usize> = (0..n).collect();
    for i in (1..n).rev() {
        let j = (mix(seed, i as u64) % (i as u64 + 1)) as usize;
        idx.swap(i, j);
    }
    idx
}

/// kind c12.repeat / c12.threads; rules[0] = rule text; switches = bits (None: default set)
/// Probe rule `a`, then repeatedly run N matches of rule `b` on this thread and probe `a` again, for
/// every N around 2^8 and 2^16 (a counter or stamp that wraps after that many calls lines up with
/// what an earlier call left behind for exactly one N).
fn long_history(a: &str, b: &str, probes: &[DObj]) -> Result<Option<String>, String> {
    let (ra, rb) = match (engine::load_text(a), engine::load_text(b)) {
        (Load::Ok(x), Load::Ok(y)) => (x, y),
        _ => return Err("rules do not load".into()),
    };
    // one probe document per round, so that exactly one call of the first rule separates the runs
    let probe = match probes.first() {
        Some(p) => p,
        None => return Err("no probe document".into()),
    };
    let before = engine::matches(&ra, probe).unwrap_or(false);
    let filler = DObj(vec![("f1".to_string(), DocVal::s(" w01z w02z "))]);
    for n in (250usize..262).chain(65_525..65_545) {
        for _ in 0..n {
            let _ = engine::matches(&rb, &filler);
        }
        let after = engine::matches(&ra, probe).unwrap_or(false);
        if after != before {
            return Ok(Some(format!(
                "the first rule gives {before} on {} but {after} after {n} further matches of the second rule on the same thread",
                probe.show()
            )));
        }
    }
    // and every probe document once more after the long run
    for d in probes {
        let x = engine::matches(&ra, d).unwrap_or(false);
        let y = engine::matches(&ra, d).unwrap_or(false);
        if x != y {
            return Ok(Some(format!("the first rule gives {x} and then {y} on {}", d.show())));
        }
    }
    Ok(None)
}

pub fn judge(case: &Case) -> Outcome {
    if case.kind == "c12.long_history" {
        return match long_history(&case.rules[0], &case.rules[1], &case.docs) {
            Ok(Some(m)) => Outcome::Violation(m),
            Ok(None) => Outcome::Pass { nontrivial: None, evaluations: 70_000, labels: vec!["long_history"] },
            Err(e) => Outcome::Skip(e),
        };
    }
    if case.kind == "c12.twins" {
        // the reproducible unit is the whole curated sequence in two load orders
        return match twins_disagreement() {
            Ok((_, Some((i, x, y)))) => Outcome::Violation(twins_message(i, &x, &y)),
            Ok((n, None)) => Outcome::Pass { nontrivial: None, evaluations: 2 * n as u64, labels: vec!["curated_twins_agree"] },
            Err(why) => Outcome::Skip(why),
        };
    }
    let text = &case.rules[0];
    let sw = Switches::from_bits(case.switches.unwrap_or(15));
    let docs = &case.docs;
    let load = |t: &str| match engine::load_text(t) {
        Load::Ok(r) => Ok(r),
        Load::Rejected(e) => Err(Outcome::Skip(format!("rule does not load: {e}"))),
        Load::Panicked(p) => Err(Outcome::Violation(format!("loader panicked: {p}"))),
    };
    let rule = match load(text) {
        Ok(r) => r,
        Err(o) => return o,
    };
    let unopt_snapshot = snapshot(&rule);
    let unopt_verdicts = match verdict_vec(&rule, docs) {
        Ok(v) => v,
        Err(p) => return Outcome::Violation(format!("matches panicked: {p}")),
    };
    let first = match engine::optimise(&rule, sw) {
        Ok(o) => o,
        Err(p) => return Outcome::Violation(format!("optimise panicked: {p}")),
    };
    let snap0 = snapshot(&first);
    let v0 = match verdict_vec(&first, docs) {
        Ok(v) => v,
        Err(p) => return Outcome::Violation(format!("matches panicked: {p}")),
    };
    let mut evals = (docs.len() * 2) as u64;
    let mut labels = vec![];
    if snap0.matches("aho_corasick(").count() + snap0.matches("regex_set(").count() >= 2 {
        labels.push("two_or_more_merged_groups");
    }
    if snap0.contains("matrix(") {
        labels.push("has_matrix");
    }
    match case.kind.as_str() {
        "c12.repeat" => {
            for round in 0..REPEATS {
                // alternately re-optimise a clone and re-load from text
                let again = if round % 2 == 0 {
                    rule.clone()
                } else {
                    match load(text) {
                        Ok(r) => r,
                        Err(o) => return o,
                    }
                };
                if snapshot(&again) != unopt_snapshot {
                    return Outcome::Violation(format!(
                        "loading the same text twice gives different expressions:\n  {}\n  {}",
                        unopt_snapshot,
                        snapshot(&again)
                    ));
                }
                let o = match engine::optimise(&again, sw) {
                    Ok(o) => o,
                    Err(p) => return Outcome::Violation(format!("optimise panicked: {p}")),
                };
                let s = snapshot(&o);
                if s != snap0 {
                    return Outcome::Violation(format!(
                        "optimise({}) printed differently on call {}:\n  first: {}\n  now:   {}",
                        sw.show(),
                        round + 2,
                        snap0,
                        s
                    ));
                }
                let v = match verdict_vec(&o, docs) {
                    Ok(v) => v,
                    Err(p) => return Outcome::Violation(format!("matches panicked: {p}")),
                };
                evals += docs.len() as u64;
                if v != v0 {
                    return Outcome::Violation(format!("verdicts differ between two optimise({}) calls", sw.show()));
                }
            }
            // order independence and repeatability of matches() on one rule value
            for (which, r, base) in [("unoptimised", &rule, &unopt_verdicts), ("optimised", &first, &v0)] {
                for p in 0..4u64 {
                    let perm = permutation(docs.len(), mix(case.hash64(), p));
                    for &i in &perm {
                        // every document twice in a row, in a permuted order
                        for _ in 0..2 {
                            match engine::matches(r, &docs[i]) {
                                Ok(b) if b == base[i] => {}
                                Ok(b) => {
                                    return Outcome::Violation(format!(
                                        "{which} rule: verdict for {} changed from {} to {b} depending on which documents were matched before",
                                        docs[i].show(),
                                        base[i]
                                    ))
                                }
                                Err(p) => return Outcome::Violation(format!("matches panicked: {p}")),
                            }
                            evals += 1;
                        }
                    }
                }
                // matching must not modify the rule
                if which == "optimised" && snapshot(r) != snap0 {
                    return Outcome::Violation("matching modified the optimised rule".into());
                }
                if which == "unoptimised" && snapshot(r) != unopt_snapshot {
                    return Outcome::Violation("matching modified the rule".into());
                }
            }
        }
        "c12.threads" => {
            let threads = 16;
            let rounds = 12;
            for (which, r, base) in [("unoptimised", &rule, &unopt_verdicts), ("optimised", &first, &v0)] {
                let failures: Vec<Option<String>> = std::thread::scope(|s| {
                    let hs: Vec<_> = (0..threads)
                        .map(|t| {
                            s.spawn(move || {
                                for round in 0..rounds {
                                    let perm = permutation(docs.len(), mix(t as u64, round as u64));
                                    for &i in &perm {
                                        match engine::matches(r, &docs[i]) {
                                            Ok(b) if b == base[i] => {}
                                            Ok(b) => {
                                                return Some(format!(
                                                    "thread {t} round {round}: verdict {b} for {} but sequentially {}",
                                                    docs[i].show(),
                                                    base[i]
                                                ))
                                            }
                                            Err(p) => return Some(format!("matches panicked in thread {t}: {p}")),
                                        }
                                    }
                                }
                                None
                            })
                        })
                        .collect();
                    hs.into_iter().map(|h| h.join().unwrap_or(Some("thread panicked".into()))).collect()
                });
                evals += (threads * rounds * docs.len()) as u64;
                if let Some(Some(m)) = failures.into_iter().find(|f| f.is_some()) {
                    return Outcome::Violation(format!("{which} rule shared by {threads} threads: {m}"));
                }
            }
        }
        _ => return Outcome::Skip("unknown kind".into()),
    }
    let varied = v0.iter().any(|b| *b) && v0.iter().any(|b| !*b);
    Outcome::Pass {
        nontrivial: if snap0 != unopt_snapshot && (varied || labels.contains(&"two_or_more_merged_groups")) {
            Some(hash_str(&snap0))
        } else {
            None
        },
        evaluations: evals,
        labels,
    }
}

fn strategy() -> impl Strategy<Value = (RuleSpec, Vec<gen::DocRecipe>, u8)> {
    (
        prop_oneof![
            2 => gen::rule_focus(true),
            1 => gen::rule(gen::RuleOpts::default()),
            1 => merge_heavy_rule(),
            1 => big_count_rule(),
        ],
        prop::collection::vec(gen::doc_recipe(), 10),
        prop_oneof![3 => Just(15u8), 1 => 0u8..16],
    )
}

/// Rules with many distinct fields each carrying mergeable searches: the shape that makes hash
/// iteration order visible in the optimised expression.
fn merge_heavy_rule() -> BoxedStrategy<RuleSpec> {
    use crate::spec::*;
    let fields = ["f1", "f2", "f3", "n1", "n2", "b1", "#h", "z1"];
    (prop::collection::vec((0usize..8, "[ab]{1,2}", 0u8..6), 4..=10), any::<bool>())
        .prop_map(move |(entries, nested)| {
            let mut blocks = vec![];
            for (f, needle, kind) in entries {
                let pat = match kind {
                    0 => needle.clone(),
                    1 => format!("*{needle}*"),
                    2 => format!("{needle}*"),
                    3 => format!("i*{needle}"),
                    4 => format!("?{needle}"),
                    _ => format!("i?{needle}.*"),
                };
                let e = Entry { key: KeySpec::plain(fields[f]), val: ValSpec::Str(pat) };
                if nested && f % 2 == 0 {
                    blocks.push(Block(vec![Entry {
                        key: KeySpec::plain(if f % 4 == 0 { "o1" } else { "objs" }),
                        val: ValSpec::Block(Block(vec![Entry { key: KeySpec::plain(["x", "y"][f / 4 % 2]), val: e.val.clone() }])),
                    }]));
                } else {
                    blocks.push(Block(vec![e]));
                }
            }
            RuleSpec { idents: vec![("A".to_string(), Body::Seq(blocks))], cond: CondSpec::Ident("A".to_string()) }
        })
        .boxed()
}

/// A quantified list around the 64-member boundary of the solver's hit counting: state leaking
/// from one match to the next would show as order-dependent verdicts.
fn big_count_rule() -> BoxedStrategy<RuleSpec> {
    use crate::spec::*;
    (prop::sample::select(vec![8usize, 63, 64, 65, 70]), 0u8..6, any::<bool>())
        .prop_map(|(len, quant, ci)| {
            let members: Vec<ValSpec> = (0..len)
                .map(|i| ValSpec::Str(format!("{}*n{:03}x*", if ci { "i" } else { "" }, i)))
                .collect();
            let modifier = match quant {
                0 => KMod::All,
                1 => KMod::Of(2),
                2 => KMod::Of(3),
                3 => KMod::Of(len as u64),
                // a single needle in the document decides these
                4 => KMod::Of(1),
                _ => KMod::None,
            };
            RuleSpec {
                idents: vec![(
                    "A".to_string(),
                    Body::Map(Block(vec![Entry { key: KeySpec { modifier, field: "f1".into() }, val: ValSpec::List(members) }])),
                )],
                cond: CondSpec::Ident("A".to_string()),
            }
        })
        .boxed()
}

/// Rules that differ only in something a process-wide memo could forget to key on - the case flag,
/// the relation, a cast, the field, the quantifier - over the same ten needles, each with documents
/// that tell the variants apart. Two processes load them in opposite orders.
pub fn curated() -> Vec<(String, Vec<DObj>)> {
    let needle = |i: usize| format!("n{:03}x", i);
    let list = |f: &dyn Fn(&str) -> String| -> String {
        (0..10).map(|i| format!("    - '{}'\n", f(&needle(i)))).collect::<String>()
    };
    let variants: Vec<(&str, String)> = vec![
        ("contains", list(&|n| format!("*{n}*"))),
        ("icontains", list(&|n| format!("i*{n}*"))),
        ("prefix", list(&|n| format!("{n}*"))),
        ("iprefix", list(&|n| format!("i{n}*"))),
        ("suffix", list(&|n| format!("*{n}"))),
        ("exact", list(&|n| n.to_string())),
        ("iexact", list(&|n| format!("i{n}"))),
        ("regex", list(&|n| format!("?{n}"))),
        ("iregex", list(&|n| format!("i?{n}"))),
        ("anchored regex", list(&|n| format!("?^{n}$"))),
        // regex escapes are case-significant although the pattern is case-insensitive
        ("iregex digit", list(&|n| format!("i?\\d{n}"))),
        ("iregex non-digit", list(&|n| format!("i?\\D{n}"))),
        ("regex word", list(&|n| format!("?\\w{n}"))),
        ("regex non-word", list(&|n| format!("?\\W{n}"))),
    ];
    let texts = ["n003x", "N003X", "zn003xz", "ZN003XZ", "n003xz", "zn003x", "n003", "n003x n007x", "N003X n007x", "5n003x", " n003x", "5N003X"];
    let mut docs: Vec<DObj> = vec![DObj::default()];
    for t in texts {
        docs.push(DObj(vec![("f1".to_string(), DocVal::s(t))]));
        docs.push(DObj(vec![("f2".to_string(), DocVal::s(t))]));
    }
    docs.push(DObj(vec![("f1".to_string(), DocVal::arr(vec![DocVal::s("N003X"), DocVal::s("n007x")]))]));
    docs.push(DObj(vec![("f1".to_string(), DocVal::Int(3))]));
    let mut out = vec![];
    // single patterns that differ only in the case of an escape / of the flag
    for p in ["i?^\\d+$", "i?^\\D+$", "?^\\d+$", "?^\\D+$", "i?^\\s*n", "i?^\\S*n"] {
        out.push((
            format!("detection:\n  A:\n    f1: '{p}'\n  condition: A\ntrue_positives: []\ntrue_negatives: []\n"),
            vec![
                DObj(vec![("f1".to_string(), DocVal::s("123"))]),
                DObj(vec![("f1".to_string(), DocVal::s("abc"))]),
                DObj(vec![("f1".to_string(), DocVal::s("n1"))]),
                DObj(vec![("f1".to_string(), DocVal::s(" n"))]),
            ],
        ));
    }
    // needle lists whose concatenations coincide (a separator character inside a needle)
    for sep in ["\\0", "\\x01", ",", "|", "\\n"] {
        let lists = [
            format!("[\"a{sep}b\", \"c\"]"),
            format!("[\"a\", \"b{sep}c\"]"),
            format!("[\"*a{sep}b*\", \"*c*\"]"),
            format!("[\"*a*\", \"*b{sep}c*\"]"),
        ];
        let texts = ["a", "c", "b", "xax", "xcx"];
        let docs: Vec<DObj> = texts.iter().map(|t| DObj(vec![("f1".to_string(), DocVal::s(t))])).collect();
        for l in lists {
            out.push((
                format!("detection:\n  A:\n    f1: {l}\n  condition: A\ntrue_positives: []\ntrue_negatives: []\n"),
                docs.clone(),
            ));
        }
    }
    // loads that fail part-way through (a dangling sign, an unterminated cast, a bad pattern) next
    // to rules with number literals in the condition: whatever a failed load leaves behind must not
    // reach the next rule
    let nums: Vec<DObj> = [-7i64, -5, -3, 0, 3, 5, 7]
        .iter()
        .map(|n| DObj(vec![("n1".to_string(), DocVal::Int(*n)), ("f1".to_string(), DocVal::s("n003x"))]))
        .collect();
    let with_cond = |c: &str| format!("detection:\n  A:\n    f1: n003x\n  condition: {c}\ntrue_positives: []\ntrue_negatives: []\n");
    for (good, bad) in [
        ("A and int(n1) > 5", "A and int(n1) > - 1"),
        ("int(n1) < 3 and A", "int(n1) == -"),
        ("A and flt(n1) >= 2.5", "A and flt(n1) > -."),
        ("of(A, 1) and int(n1) == 5", "of(A, -"),
        ("A and int(n1) > 5", "A and int(n1"),
    ] {
        out.push((with_cond(good), nums.clone()));
        out.push((with_cond(bad), nums.clone()));
        out.push((with_cond(good), nums.clone()));
    }
    for bad_key in ["event-id", "a - 1", "int(n1", "of(f1, -)"] {
        out.push((with_cond("A and int(n1) >= 3"), nums.clone()));
        out.push((
            format!("detection:\n  A:\n    '{bad_key}': 4624\n  condition: A\ntrue_positives: []\ntrue_negatives: []\n"),
            nums.clone(),
        ));
        out.push((with_cond("A and 3 <= int(n1)"), nums.clone()));
    }
    // floats of both signs of zero under a cast, in alternation
    let zeros: Vec<DObj> = [0.0f64, -0.0, 0.0, 1.0, -0.0, -0.0, 0.0]
        .iter()
        .map(|z| DObj(vec![("f1".to_string(), DocVal::Float(*z))]))
        .collect();
    for p in ["'0'", "'-0'", "'0*'", "'-*'", "['0', '1']"] {
        out.push((
            format!("detection:\n  A:\n    str(f1): {p}\n  condition: A\ntrue_positives: []\ntrue_negatives: []\n"),
            zeros.clone(),
        ));
    }
    for (_, members) in &variants {
        for key in ["f1", "f2", "str(f1)", "all(f1)", "of(f1, 2)", "not(f1)"] {
            out.push((
                format!("detection:\n  A:\n    {key}:\n{members}  condition: A\ntrue_positives: []\ntrue_negatives: []\n"),
                docs.clone(),
            ));
        }
    }
    out
}

fn digest_line(text: &str, docs: &[DObj], bits: u8) -> String {
    match engine::load_text(text) {
        Load::Ok(r) => match engine::optimise(&r, Switches::from_bits(bits)) {
            Ok(o) => {
                let v: String = docs
                    .iter()
                    .map(|d| match (engine::matches(&r, d), engine::matches(&o, d)) {
                        (Ok(a), Ok(b)) => char::from(b'0' + a as u8 + 2 * b as u8),
                        _ => 'P',
                    })
                    .collect();
                // equal documents at different positions of the sequence must get equal results
                let vs: Vec<char> = v.chars().collect();
                for i in 0..docs.len() {
                    for j in 0..i {
                        if vs[i] != vs[j] && docs[i].show() == docs[j].show() {
                            return format!("{:016x} {v} HISTORY-DEPENDENT: documents #{j} and #{i} are equal ({})", hash_str(&snapshot(&o)), docs[i].show());
                        }
                    }
                }
                format!("{:016x} {v}", hash_str(&snapshot(&o)))
            }
            Err(_) => "optimise-panic".to_string(),
        },
        Load::Rejected(_) => "rejected".to_string(),
        Load::Panicked(_) => "load-panic".to_string(),
    }
}

/// Run the curated rules in two fresh processes with opposite load orders; the first index on
/// which they disagree, with both lines. Err = the workers could not be run.
fn twins_disagreement() -> Result<(usize, Option<(usize, String, String)>), String> {
    let exe = std::env::current_exe().map_err(|e| e.to_string())?;
    let spawn_cur = |reversed: bool| {
        std::process::Command::new(&exe)
            .args(["worker", if reversed { "c12currev" } else { "c12cur" }])
            .output()
            .map(|o| String::from_utf8_lossy(&o.stdout).to_string())
            .map_err(|e| e.to_string())
    };
    let (a, b) = (spawn_cur(false)?, spawn_cur(true)?);
    let n = curated().len();
    let la: Vec<&str> = a.lines().collect();
    let mut lb: Vec<&str> = b.lines().collect();
    lb.reverse();
    if la.len() != n || lb.len() != n {
        return Err(format!("curated worker output incomplete ({} / {} of {n} lines)", la.len(), lb.len()));
    }
    for (i, (x, y)) in la.iter().zip(lb.iter()).enumerate() {
        if x != y || x.contains("HISTORY-DEPENDENT") {
            return Ok((n, Some((i, x.to_string(), y.to_string()))));
        }
    }
    Ok((n, None))
}

fn twins_message(i: usize, x: &str, y: &str) -> String {
    format!("a rule gives different results depending on which rules the process loaded before it (curated rule #{i}): `{x}` vs `{y}` (digest of optimised expression; per document 0..3 = unoptimised + 2 * optimised verdict)")
}

/// Worker mode for the curated rules.
pub fn worker_curated(reversed: bool) {
    let cases = curated();
    let order: Vec<usize> = if reversed { (0..cases.len()).rev().collect() } else { (0..cases.len()).collect() };
    for i in order {
        println!("{i} {}", digest_line(&cases[i].0, &cases[i].1, 15));
    }
}

/// Worker mode: print one digest line per generated rule (used for the cross-process comparison).
pub fn worker(seed: u64, n: usize, reversed: bool) {
    let values = gen::sample_values(seed, n, &strategy());
    // the second worker loads the rules in the opposite order: what one rule does must not depend
    // on which rules the process handled before
    let order: Vec<usize> = if reversed { (0..values.len()).rev().collect() } else { (0..values.len()).collect() };
    for i in order {
        let (rule, recipes, bits) = &values[i];
        if !rule.well_formed() {
            println!("{i} skip");
            continue;
        }
        let docs: Vec<DObj> = recipes.iter().map(|r| gen::build_doc(rule, r)).collect();
        let text = rule.text();
        let line = match engine::load_text(&text) {
            Load::Ok(r) => match engine::optimise(&r, Switches::from_bits(*bits)) {
                Ok(o) => {
                    let v: String = docs
                        .iter()
                        .map(|d| match engine::matches(&o, d) {
                            Ok(true) => '1',
                            Ok(false) => '0',
                            Err(_) => 'P',
                        })
                        .collect();
                    format!("{:016x} {v}", hash_str(&snapshot(&o)))
                }
                Err(_) => "optimise-panic".to_string(),
            },
            Load::Rejected(_) => "rejected".to_string(),
            Load::Panicked(_) => "load-panic".to_string(),
        };
        println!("{i} {line}");
    }
}

pub fn run(tier: &str, seed: u64) -> i32 {
    let mut report = Report::new(ID, tier, seed);
    report.rule = format!(
        "rules biased to the optimiser's merge candidates (several distinct fields with mergeable searches, nested \
         blocks on shared holders, matrix-shaped or-groups) plus grammar-G rules x a switch set (default 3/4 of the \
         time) x 10 documents. Oracles: (1) {} further optimise() calls on clones and on fresh loads of the same \
         text print exactly the same condition and identifiers (each call gets freshly seeded hash maps) and give \
         the same verdict vector; (2) two freshly spawned worker processes print the same digests (expression, \
         verdicts) as each other and as this process; (3) 16 threads sharing one rule value match the documents in \
         independently shuffled orders and agree with the sequential verdicts; (4) verdicts do not depend on which \
         documents were matched before, and matching leaves the rule's printed form unchanged; (5) ~120 curated rules \
         - near twins over ten needles that differ only in case flag, relation, cast, field, quantifier or the case of a \
         regex escape, loads that fail part-way next to rules with number literals, zeros of both signs under str() - \
         are loaded in opposite orders by two fresh processes and must print the same digests, and equal documents at \
         different positions of a sequence must get equal results. Non-trivial: the \
         optimised expression differs from the unoptimised one and either both verdicts occur or >= 2 merged groups \
         exist; distinct by optimised expression.",
        REPEATS
    );
    report.assumptions = vec!["thread interleavings are sampled under the OS scheduler, not enumerated; the crate has no unsafe code, statics or interior mutability in the evaluation path".into()];
    let findings = load_findings();
    replay_findings(&mut report, &findings, &judge);

    let n = if tier == "thorough" { 60_000 } else { 7_200 };
    let expand = |kind: &'static str| {
        move |(rule, recipes, bits): &(RuleSpec, Vec<gen::DocRecipe>, u8)| {
            if !rule.well_formed() {
                return vec![];
            }
            let mut c = Case::new(kind);
            c.rules = vec![rule.text()];
            c.docs = recipes.iter().map(|r| gen::build_doc(rule, r)).collect();
            c.switches = Some(*bits);
            vec![c]
        }
    };
    gen::drive(&mut report, 60, n, strategy, expand("c12.repeat"), judge, |_, rep| rep.label("repeat_case"));

    // threads: the judge itself spawns 16 threads, so drive these sequentially-ish
    let tn = if tier == "thorough" { 3_000 } else { 480 };
    let values = gen::sample_values(mix(seed, 61), tn, &strategy());
    for v in &values {
        for c in expand("c12.threads")(v) {
            let out = judge(&c);
            report.label("threads_case");
            report.record(&c, out);
        }
    }

    // cross-process
    let pn = if tier == "thorough" { 6_000 } else { 1_800 };
    let pseed = mix(seed, 62);
    let exe = std::env::current_exe().expect("exe");
    let spawn = |reversed: bool| {
        std::process::Command::new(&exe)
            .args(["worker", if reversed { "c12rev" } else { "c12" }, &pseed.to_string(), &pn.to_string()])
            .output()
            .map(|o| String::from_utf8_lossy(&o.stdout).to_string())
    };
    match (spawn(false), spawn(true)) {
        (Ok(a), Ok(b)) => {
            let la: Vec<&str> = a.lines().collect();
            let mut lb: Vec<&str> = b.lines().collect();
            // the reversed worker printed in reversed order; bring its lines back to index order
            lb.reverse();
            report.label_n("cross_process_rules", la.len() as u64);
            if la.len() != pn || lb.len() != pn {
                report.notes.push(format!("worker output incomplete ({} / {} of {pn} lines)", la.len(), lb.len()));
            }
            let values = gen::sample_values(pseed, pn, &strategy());
            for (i, (x, y)) in la.iter().zip(lb.iter()).enumerate() {
                report.evaluations += 2;
                if x != y {
                    let (rule, recipes, bits) = &values[i];
                    let mut c = Case::new("c12.repeat");
                    c.rules = vec![rule.text()];
                    c.docs = recipes.iter().map(|r| gen::build_doc(rule, r)).collect();
                    c.switches = Some(*bits);
                    report.violations.push(Violation {
                        case: c,
                        message: format!("two processes disagree on rule #{i}: `{x}` vs `{y}` (digest of optimised expression, verdicts)"),
                    });
                    break;
                }
            }
        }
        _ => report.notes.push("could not spawn worker processes; cross-process comparison skipped".into()),
    }

    // long histories on one thread: whatever a match leaves behind (scratch buffers, stamps,
    // counters that wrap) must not reach a later match. A quantified list of 70 needles is probed, then
    // N matches of a shorter list follow, then the probe again - for every N around 2^8 and 2^16.
    {
        let rule_of = |len: usize, q: &str| {
            let members: String = (0..len).map(|i| format!("    - '*w{i:02}z*'\n")).collect();
            format!("detection:\n  A:\n    {q}:\n{members}  condition: A\ntrue_positives: []\ntrue_negatives: []\n")
        };
        let mut problems = vec![];
        for (long, short, q) in [(70usize, 64usize, "of(f1, 1)"), (130, 65, "of(f1, 2)"), (70, 64, "all(f1)")] {
            let probes: Vec<DObj> = [long - 1, long - 2, 0, short]
                .iter()
                .map(|i| DObj(vec![("f1".to_string(), DocVal::Str(format!(" w{:02}z w{:02}z ", i, (i + 1) % long)))]))
                .chain(std::iter::once(DObj(vec![("f1".to_string(), DocVal::Str((0..long).map(|i| format!(" w{i:02}z")).collect()))])))
                .collect();
            report.evaluations += 1_380_000;
            report.cases += 1;
            if let Ok(Some(m)) = long_history(&rule_of(long, q), &rule_of(short, q), &probes) {
                let mut c = Case::new("c12.long_history");
                c.rules = vec![rule_of(long, q), rule_of(short, q)];
                c.docs = probes.clone();
                problems.push((c, m));
            }
        }
        report.label_n("long_history_sequences", 3);
        for (c, m) in problems {
            report.violations.push(Violation { case: c, message: m });
        }
    }

    // curated near-twin rules, loaded in opposite orders by two fresh processes
    match twins_disagreement() {
        Ok((n, found)) => {
            let cases = curated();
            report.label_n("curated_twin_rules", n as u64);
            report.cases += n as u64;
            report.evaluations += 2 * cases.iter().map(|c| c.1.len() as u64).sum::<u64>();
            if let Some((i, x, y)) = found {
                let mut c = Case::new("c12.twins");
                c.rules = vec![cases[i].0.clone()];
                c.docs = cases[i].1.clone();
                c.switches = Some(15);
                report.violations.push(Violation { case: c, message: twins_message(i, &x, &y) });
            }
        }
        Err(why) => report.notes.push(format!("curated comparison skipped: {why}")),
    }
    report.finish()
}
