//! C02 Verdicts follow the documented rule language (engine vs reference interpreter).

use proptest::prelude::*;

use crate::common::*;
use crate::engine::{self, Load, Tri};
use crate::gen;
use crate::reference::{self, show_set, EvalOpts, Evaluator, RefErr};
use crate::spec::RuleSpec;

pub const ID: &str = "C02";

/// Evaluate one case: rules[0] is the rule text, rules[1] the same rule with the condition wrapped
/// in `not ( .. )`; every document is evaluated against both and compared with the reference.
/// Returns per document (engine three-valued result, admissible set, whether a sub-result was
/// widened because it is not judged).
pub fn eval_case(case: &Case) -> Result<Vec<(Tri, reference::RSet, bool)>, Outcome> {
    eval_case_impl(case, OptimisedCheck::WideEnvelope)
}

/// How the shared oracle treats the optimised rule.
#[derive(Clone, Copy, PartialEq)]
pub enum OptimisedCheck {
    /// not at all (C02 is stated for the unoptimised rule)
    Off,
    /// a differing verdict must be admissible under C01's structural model of K1 / K2
    Tight,
    /// a differing verdict must be admissible when every and-group is relaxed (an envelope that
    /// certainly contains K1 / K2)
    WideEnvelope,
}

/// `with_optimised`: the properties that use this oracle (C05, C07, C09, C10) speak about
/// `Rule::matches` whatever the rule went through, so the same documents are also matched against
/// the rule optimised with the default switches and with one further switch set; a verdict that
/// differs from the unoptimised one must be explained by the known findings K1 / K2 exactly as in
/// C01 (relaxed reference for that switch set). C02 itself is stated for the unoptimised rule and
/// leaves this to C01.
pub fn eval_case_impl(case: &Case, with_optimised: OptimisedCheck) -> Result<Vec<(Tri, reference::RSet, bool)>, Outcome> {
    let text = &case.rules[0];
    let neg_text = &case.rules[1];
    let refrule = match reference::load_rule_text(text, false) {
        Ok(r) => r,
        Err(RefErr::Invalid(why)) => {
            // the generator only writes rules it believes valid; if the engine loads it anyway the
            // reference front end is too strict somewhere - count, do not judge
            return Err(Outcome::Skip(format!("reference rejects rule: {why}")));
        }
        Err(RefErr::Unsupported(why)) => return Err(Outcome::Skip(format!("unsupported: {why}"))),
    };
    let rule = match engine::load_text(text) {
        Load::Ok(r) => r,
        Load::Rejected(e) => {
            if e.contains("CompiledTooBig") {
                // a resource limit of the regex crate, not a statement about the rule language
                return Err(Outcome::Skip("regex size limit".into()));
            }
            if refrule.loader_may_reject {
                return Err(Outcome::Skip("integer constant outside the signed 64-bit range refused".into()));
            }
            return Err(Outcome::Violation(format!("loader rejects a rule the language defines: {e}")));
        }
        Load::Panicked(p) => return Err(Outcome::Violation(format!("loader panicked: {p}"))),
    };
    let neg_rule = match engine::load_text(neg_text) {
        Load::Ok(r) => r,
        Load::Rejected(e) => {
            return Err(Outcome::Violation(format!("loader rejects the negated rule: {e}")));
        }
        Load::Panicked(p) => return Err(Outcome::Violation(format!("loader panicked: {p}"))),
    };
    // VERIF_EXACT_SELFTEST=1 (development aid): judge against the engine-exact resolution of the
    // undocumented zones that C01 uses for attribution, to validate that model against the
    // unoptimised engine
    let exact = std::env::var("VERIF_EXACT_SELFTEST").is_ok();
    let ev = Evaluator::new(&refrule, EvalOpts { engine_exact: exact, ..EvalOpts::default() });
    if with_optimised != OptimisedCheck::Off {
        optimised_agreement_with(text, &rule, Some(&refrule), "", &case.docs, with_optimised == OptimisedCheck::WideEnvelope)?;
        let neg_ref = reference::load_rule_text(neg_text, false).ok();
        optimised_agreement_with(neg_text, &neg_rule, neg_ref.as_ref(), "negated ", &case.docs, with_optimised == OptimisedCheck::WideEnvelope)?;
    }
    let mut out = vec![];
    NJ_REASONS.with(|r| r.borrow_mut().clear());
    for (i, doc) in case.docs.iter().enumerate() {
        let pos = match engine::matches(&rule, doc) {
            Ok(b) => b,
            Err(p) => return Err(Outcome::Violation(format!("matches() panicked on doc #{i}: {p}"))),
        };
        let neg = match engine::matches(&neg_rule, doc) {
            Ok(b) => b,
            Err(p) => {
                return Err(Outcome::Violation(format!("matches() of negated rule panicked on doc #{i}: {p}")))
            }
        };
        let tri = Tri::from_probe(pos, neg);
        let before = ev.not_judged.get();
        let set = ev.eval(doc);
        let widened = ev.not_judged.get() > before;
        if set & tri.bit() == 0 {
            return Err(Outcome::Violation(format!(
                "doc #{i} {}: engine result {} (matches={pos}, not(..) matches={neg}) but the rule language admits only {}",
                doc.show(),
                tri.show(),
                show_set(set)
            )));
        }
        out.push((tri, set, widened));
    }
    NJ_REASONS.with(|r| {
        let mut r = r.borrow_mut();
        for (k, v) in ev.reasons.borrow().iter() {
            *r.entry(k).or_insert(0) += v;
        }
    });
    Ok(out)
}

/// The documents are also matched against the rule optimised with the default switches and with
/// one further switch set; a verdict that differs from the unoptimised one must be explained by the
/// known findings K1 / K2 exactly as in C01 (relaxed reference for that switch set).
pub fn optimised_agreement(
    text: &str,
    rule: &tau_engine::Rule,
    refrule: Option<&reference::RefRule>,
    which: &str,
    docs: &[crate::model::DObj],
) -> Result<(), Outcome> {
    optimised_agreement_with(text, rule, refrule, which, docs, true)
}

pub fn optimised_agreement_with(
    text: &str,
    rule: &tau_engine::Rule,
    refrule: Option<&reference::RefRule>,
    which: &str,
    docs: &[crate::model::DObj],
    wide: bool,
) -> Result<(), Outcome> {
    let extra = 1 + (hash_str(text) % 14) as u8;
    for bits in [15u8, extra] {
        let sw = engine::Switches::from_bits(bits);
        let opt = match engine::optimise(rule, sw) {
            Ok(o) => o,
            Err(p) => return Err(Outcome::Violation(format!("optimise({}) of the {which}rule panicked: {p}", sw.show()))),
        };
        for (i, doc) in docs.iter().enumerate() {
            let (base, got) = match (engine::matches(rule, doc), engine::matches(&opt, doc)) {
                (Ok(a), Ok(b)) => (a, b),
                (Err(p), _) | (_, Err(p)) => {
                    return Err(Outcome::Violation(format!(
                        "matches() of the {which}rule (optimised with {}) panicked on doc #{i}: {p}",
                        sw.show()
                    )))
                }
            };
            if base == got {
                continue;
            }
            // explained by and-reordering / double-negation removal (K1, K2)?
            if let Some(rr) = refrule {
                // the wide envelope: every and-group may yield any non-true operand's result, and
                // a double negation may cancel, if shake or matrix is on at all
                let rel = if wide {
                    let on = sw.shake || sw.matrix;
                    Evaluator::new(rr, EvalOpts { relaxed: true, shake: on, matrix: on, engine_exact: true, wide: on })
                } else {
                    Evaluator::new(rr, EvalOpts { relaxed: true, shake: sw.shake, matrix: sw.matrix, engine_exact: true, wide: false })
                };
                if reference::verdict_admissible(rel.eval(doc), got) {
                    continue;
                }
            }
            return Err(Outcome::Violation(format!(
                "doc #{i} {}: the {which}rule matches={base} as loaded but matches={got} after optimise({}); optimised expression: {}",
                doc.show(),
                sw.show(),
                opt.detection.expression
            )));
        }
    }
    Ok(())
}

thread_local! {
    /// reasons of the not-judged sub-results of the last eval_case on this thread
    pub static NJ_REASONS: std::cell::RefCell<std::collections::BTreeMap<&'static str, u32>> = Default::default();
}

pub fn judge(case: &Case) -> Outcome {
    let results = match eval_case_impl(case, OptimisedCheck::Off) {
        Ok(r) => r,
        Err(o) => return o,
    };
    let mut seen = [false; 3];
    let mut labels = vec![];
    for (tri, set, widened) in &results {
        match tri {
            Tri::T => {
                seen[0] = true;
                labels.push("result_true")
            }
            Tri::F => {
                seen[1] = true;
                labels.push("result_false")
            }
            Tri::M => {
                seen[2] = true;
                labels.push("result_missing")
            }
            Tri::Both => {}
        }
        if *widened {
            labels.push("doc_with_not_judged_subresult");
        }
        if set.count_ones() == 1 {
            labels.push("reference_result_exact");
        }
    }
    NJ_REASONS.with(|r| {
        for (k, _) in r.borrow().iter() {
            labels.push(match *k {
                "K3 shape" => "rule_not_judged_in_part:K3 shape",
                "K7 shape" => "rule_not_judged_in_part:K7 shape",
                "quantified key list on array field" => "rule_not_judged_in_part:quantified key list on array field",
                "quantifier over single-entry identifier with list value" => {
                    "rule_not_judged_in_part:quantifier over single-entry identifier with list value"
                }
                "key is not a well-formed path" => "rule_not_judged_in_part:key is not a well-formed path",
                _ => "rule_not_judged_in_part:other",
            });
        }
    });
    let varied = seen.iter().filter(|s| **s).count() >= 2;
    Outcome::Pass {
        nontrivial: if varied { Some(hash_str(&case.rules[0])) } else { None },
        evaluations: 2 * results.len() as u64,
        labels,
    }
}

pub fn make_case(rule: &RuleSpec, docs: Vec<crate::model::DObj>) -> Case {
    let mut c = Case::new("c02.verdict");
    c.rules = vec![rule.text(), rule.negated_text()];
    c.docs = docs;
    c
}

pub fn run(tier: &str, seed: u64) -> i32 {
    let mut report = Report::new(ID, tier, seed);
    report.rule = "rules from grammar G (1-4 identifiers; mappings, sequences of mappings, nested mappings, key \
        modifiers all/of/not/int/flt/str, every pattern kind, lists; conditions with and/or/not/all()/of()/cast \
        comparisons) x 8 documents built from recipes (random base over the field vocabulary + edits that make a \
        chosen predicate true / nearly true / absent / wrong kind). Each (rule, document) is evaluated by the \
        engine on the rule and on the rule with condition `not (C)`, giving a three-valued result that must be in \
        the reference interpreter's admissible set. Further streams: same-field rules, same-holder nested rules against \
        arrays of objects, key lists of 62-130 members. Non-trivial: across the documents of a rule at least two \
        different three-valued results occur; distinct by rule text."
        .into();
    report.assumptions = vec![
        "serde_yaml parses the emitted rule text faithfully (it is the parser the engine itself uses)".into(),
        "the regex crate decides regex matches for both sides; only its wiring is tested".into(),
        "undocumented zones are set-valued (wrong value kind: false or missing; cross-kind numeric comparison: false or exact)".into(),
    ];
    let findings = load_findings();
    replay_findings(&mut report, &findings, &judge);

    // the repository's own rules are the first test of the reference front end
    repo_rules(&mut report);

    let n = if tier == "thorough" { 400_000 } else { 24_000 };
    let strat = || (gen::rule(gen::RuleOpts::default()), prop::collection::vec(gen::doc_recipe(), 8));
    gen::drive(
        &mut report,
        1,
        n,
        strat,
        |(rule, recipes): &(RuleSpec, Vec<gen::DocRecipe>)| {
            if !rule.well_formed() {
                return vec![];
            }
            let docs = recipes.iter().map(|r| gen::build_doc(rule, r)).collect();
            vec![make_case(rule, docs)]
        },
        judge,
        |(rule, _), rep| {
            if rule.has_negation() {
                rep.label("rule_with_negation");
            }
            if rule.cond.has_quantifier() {
                rep.label("rule_with_condition_quantifier");
            }
        },
    );
    // key lists of 62-130 members (the solver counts hits differently from 64 members on)
    {
        let big = crate::checks::c08::big_list_reference_cases(tier);
        let subs: Vec<Report> = par_run(|w, n| {
            let mut sub = report.sub();
            for (i, c) in big.iter().enumerate() {
                if i % n != w {
                    continue;
                }
                let out = judge(c);
                sub.label("big_key_list");
                sub.record(c, out);
            }
            sub
        });
        for s in subs {
            report.merge(s);
        }
    }
    // everything about one field x every value kind
    gen::drive(
        &mut report,
        3,
        n / 8,
        gen::rule_same_field_focus,
        |rule: &RuleSpec| {
            if !rule.well_formed() {
                return vec![];
            }
            vec![make_case(rule, gen::same_field_docs_for(rule, "f1"))]
        },
        judge,
        |_, rep| rep.label("same_field_rule"),
    );
    // nested blocks on one holder against objects and arrays of objects
    gen::drive(
        &mut report,
        2,
        n / 8,
        || (gen::rule_nested_focus(true), prop::collection::vec((any::<u16>(), any::<u8>()), 24)),
        |(rule, picks): &(RuleSpec, Vec<(u16, u8)>)| {
            if !rule.well_formed() {
                return vec![];
            }
            vec![make_case(rule, gen::nested_docs(rule, picks))]
        },
        judge,
        |_, rep| rep.label("same_holder_nested_rule"),
    );
    // curated rules: case twins / cast twins in both orders, and key-order twins of growing size
    {
        let negate = |text: &str| -> String {
            text.lines()
                .map(|l| match l.strip_prefix("  condition: ") {
                    Some(c) => format!("  condition: not ({c})"),
                    None => l.to_string(),
                })
                .collect::<Vec<_>>()
                .join("\n")
                + "\n"
        };
        let mut curated: Vec<(String, Vec<crate::model::DObj>, &'static str)> = vec![];
        for (a, b, docs) in gen::twin_rules() {
            curated.push((a, docs.clone(), "case_or_cast_twin_rule"));
            curated.push((b, docs, "case_or_cast_twin_rule"));
        }
        for (t, docs) in gen::order_twin_rules() {
            curated.push((t, docs, "key_order_twin_rule"));
        }
        let subs: Vec<Report> = par_run(|w, n| {
            let mut sub = report.sub();
            for (i, (text, docs, label)) in curated.iter().enumerate() {
                if i % n != w {
                    continue;
                }
                let mut c = Case::new("c02.verdict");
                c.rules = vec![text.clone(), negate(text)];
                c.docs = docs.clone();
                let out = judge(&c);
                sub.label(label);
                sub.record(&c, out);
            }
            sub
        });
        for s in subs {
            report.merge(s);
        }
    }
    report.finish()
}

/// Every rule file of the repository: the reference must be able to load it and must agree with
/// the engine on the rule's own example documents.
fn repo_rules(report: &mut Report) {
    let dir = std::path::Path::new("/repo/tests/rules");
    let mut files: Vec<_> = match std::fs::read_dir(dir) {
        Ok(d) => d.filter_map(|e| e.ok()).map(|e| e.path()).collect(),
        Err(_) => {
            report.notes.push("tests/rules not found".into());
            return;
        }
    };
    files.sort();
    for f in files {
        let text = match std::fs::read_to_string(&f) {
            Ok(t) => t,
            Err(_) => continue,
        };
        let yaml: serde_yaml::Value = match serde_yaml::from_str(&text) {
            Ok(v) => v,
            Err(_) => continue,
        };
        let mut docs = vec![];
        for key in ["true_positives", "true_negatives"] {
            if let Some(serde_yaml::Value::Sequence(s)) = yaml.get(key) {
                for d in s {
                    if let Some(o) = yaml_to_dobj(d) {
                        docs.push(o);
                    }
                }
            }
        }
        let det = match yaml.get("detection") {
            Some(d) => d.clone(),
            None => continue,
        };
        let cond = det.get("condition").and_then(|c| c.as_str()).unwrap_or("").to_string();
        let mut neg = det.clone();
        if let serde_yaml::Value::Mapping(m) = &mut neg {
            m.insert("condition".into(), serde_yaml::Value::String(format!("not ({cond})")));
        }
        let mut c = Case::new("c02.repo_rule");
        c.rules = vec![engine::rule_text(&det, &[], &[]), engine::rule_text(&neg, &[], &[])];
        c.docs = docs;
        c.texts = vec![f.display().to_string()];
        if matches!(engine::load_text(&c.rules[0]), Load::Rejected(_)) {
            report.label("repo_rule_files_rejected_by_loader");
            continue;
        }
        let out = judge(&c);
        report.label("repo_rule_files");
        report.record(&c, out);
    }
}

pub fn yaml_to_docval(v: &serde_yaml::Value) -> Option<crate::model::DocVal> {
    use crate::model::{DArr, DObj, DocVal};
    use serde_yaml::Value as Y;
    Some(match v {
        Y::Null => DocVal::Null,
        Y::Bool(b) => DocVal::Bool(*b),
        Y::Number(n) => {
            if let Some(u) = n.as_u64() {
                DocVal::UInt(u)
            } else if let Some(i) = n.as_i64() {
                DocVal::Int(i)
            } else {
                DocVal::Float(n.as_f64()?)
            }
        }
        Y::String(s) => DocVal::Str(s.clone()),
        Y::Sequence(s) => DocVal::Arr(DArr(s.iter().map(yaml_to_docval).collect::<Option<Vec<_>>>()?)),
        Y::Mapping(m) => {
            let mut o = DObj::default();
            for (k, v) in m {
                o.0.push((k.as_str()?.to_string(), yaml_to_docval(v)?));
            }
            DocVal::Obj(o)
        }
        Y::Tagged(_) => return None,
    })
}

pub fn yaml_to_dobj(v: &serde_yaml::Value) -> Option<crate::model::DObj> {
    match yaml_to_docval(v)? {
        crate::model::DocVal::Obj(o) => Some(o),
        _ => None,
    }
}
