//! C15 ignore_case build equals default build with every pattern i-prefixed.
//!
//! Two builds of this harness exist: the default one and one with `tau-engine/ignore_case`
//! (target-ic). The default build drives the check; the ignore_case build runs as a child process
//! (`tauverif worker c15serve`) that evaluates rules as written.

use std::cell::RefCell;
use std::io::{BufRead, BufReader, Write};
use std::process::{Child, ChildStdin, ChildStdout, Command, Stdio};

use proptest::prelude::*;
use serde_yaml::Value as Y;

use crate::common::*;
use crate::engine::{self, Load};
use crate::gen;
use crate::model::{DArr, DObj, DocVal};
use crate::reference::{self, verdict_admissible, EvalOpts, Evaluator};
use crate::spec::RuleSpec;

pub const ID: &str = "C15";

fn ic_binary() -> std::path::PathBuf {
    verif_root().join("harness/target-ic/release/tauverif")
}

thread_local! {
    static SERVER: RefCell<Option<(Child, ChildStdin, BufReader<ChildStdout>)>> = const { RefCell::new(None) };
}

/// Ask the ignore_case build for the verdicts of `rule_text` on `docs`.
/// Returns a string of '1' / '0' per document, or "rejected" / "panic...".
fn ask_ic(rule_text: &str, docs: &[DObj]) -> Result<String, String> {
    SERVER.with(|cell| {
        let mut guard = cell.borrow_mut();
        if guard.is_none() {
            let mut child = Command::new(ic_binary())
                .args(["worker", "c15serve"])
                .stdin(Stdio::piped())
                .stdout(Stdio::piped())
                .spawn()
                .map_err(|e| format!("cannot start the ignore_case build: {e}"))?;
            let stdin = child.stdin.take().ok_or("no stdin")?;
            let stdout = BufReader::new(child.stdout.take().ok_or("no stdout")?);
            *guard = Some((child, stdin, stdout));
        }
        let (_, stdin, stdout) = guard.as_mut().unwrap();
        let req = serde_json::json!({"rule": rule_text, "docs": docs.iter().map(|d| d.to_tagged()).collect::<Vec<_>>()});
        writeln!(stdin, "{}", req).map_err(|e| format!("write: {e}"))?;
        stdin.flush().map_err(|e| format!("flush: {e}"))?;
        let mut line = String::new();
        stdout.read_line(&mut line).map_err(|e| format!("read: {e}"))?;
        if line.is_empty() {
            *guard = None;
            return Err("the ignore_case worker closed its output".into());
        }
        Ok(line.trim().to_string())
    })
}

/// Worker side (runs in the ignore_case build): one JSON request per line.
pub fn serve() {
    if !cfg!(feature = "ignore_case") {
        eprintln!("c15serve must run in the ignore_case build");
        std::process::exit(2);
    }
    let stdin = std::io::stdin();
    let mut out = std::io::stdout();
    for line in stdin.lock().lines() {
        let Ok(line) = line else { break };
        let resp = match serde_json::from_str::<serde_json::Value>(&line) {
            Ok(v) => {
                let rule = v["rule"].as_str().unwrap_or("");
                let docs: Vec<DObj> =
                    v["docs"].as_array().map(|a| a.iter().filter_map(|d| DObj::from_tagged(d).ok()).collect()).unwrap_or_default();
                match engine::load_text(rule) {
                    Load::Ok(r) => docs
                        .iter()
                        .map(|d| match engine::matches(&r, d) {
                            Ok(true) => '1',
                            Ok(false) => '0',
                            Err(_) => 'P',
                        })
                        .collect::<String>(),
                    Load::Rejected(_) => "rejected".to_string(),
                    Load::Panicked(p) => format!("panic {}", p.replace('\n', " ")),
                }
            }
            Err(_) => "badrequest".to_string(),
        };
        let _ = writeln!(out, "{resp}");
        let _ = out.flush();
    }
}

/// Prepend `i` to every string scalar in pattern position of the detection block.
pub fn i_prefix(det: &Y) -> Y {
    fn val(v: &Y) -> Y {
        match v {
            Y::String(s) => Y::String(format!("i{s}")),
            Y::Sequence(l) => Y::Sequence(l.iter().map(val).collect()),
            Y::Mapping(m) => Y::Mapping(m.iter().map(|(k, x)| (k.clone(), val(x))).collect()),
            other => other.clone(),
        }
    }
    match det {
        Y::Mapping(m) => Y::Mapping(
            m.iter()
                .map(|(k, v)| if k.as_str() == Some("condition") { (k.clone(), v.clone()) } else { (k.clone(), val(v)) })
                .collect(),
        ),
        other => other.clone(),
    }
}

fn swapcase(v: &DocVal) -> DocVal {
    match v {
        DocVal::Str(s) => DocVal::Str(
            s.chars()
                .map(|c| if c.is_ascii_lowercase() { c.to_ascii_uppercase() } else { c.to_ascii_lowercase() })
                .collect(),
        ),
        DocVal::Arr(a) => DocVal::Arr(DArr(a.0.iter().map(swapcase).collect())),
        DocVal::Obj(o) => DocVal::Obj(DObj(o.0.iter().map(|(k, x)| (k.clone(), swapcase(x))).collect())),
        other => other.clone(),
    }
}

/// rules[0] = rule as written (evaluated by the ignore_case build), rules[1] = the same rule with
/// every string pattern i-prefixed (evaluated by this, the default build).
pub fn judge(case: &Case) -> Outcome {
    if cfg!(feature = "ignore_case") {
        return Outcome::Skip("C15 is driven from the default build".into());
    }
    if !ic_binary().exists() {
        return Outcome::Skip("ignore_case build not present".into());
    }
    let as_written = &case.rules[0];
    let prefixed = &case.rules[1];
    let rule = match engine::load_text(prefixed) {
        Load::Ok(r) => Some(r),
        Load::Rejected(_) => None,
        Load::Panicked(p) => return Outcome::Violation(format!("loader panicked: {p}")),
    };
    let ic = match ask_ic(as_written, &case.docs) {
        Ok(s) => s,
        Err(e) => return Outcome::Skip(format!("ignore_case worker unavailable: {e}")),
    };
    let rule = match (rule, ic.as_str()) {
        (None, "rejected") => return Outcome::Skip("rule does not load in either build".into()),
        (None, _) => {
            return Outcome::Violation(
                "the ignore_case build loads the rule but the default build rejects the i-prefixed rule".into(),
            )
        }
        (Some(_), "rejected") => {
            return Outcome::Violation(
                "the default build loads the i-prefixed rule but the ignore_case build rejects the rule as written".into(),
            )
        }
        (Some(_), s) if s.starts_with("panic") => {
            return Outcome::Violation(format!("the ignore_case build panicked while loading: {s}"))
        }
        (Some(r), _) => r,
    };
    let plain = match engine::load_text(as_written) {
        Load::Ok(r) => Some(r),
        _ => None,
    };
    // the ignore_case semantics according to the reference (rule as written, every string
    // predicate case-insensitive, no prefix interpreted)
    let refrule = reference::load_rule_text(as_written, true).ok();
    let mut evals = 0;
    let mut case_mattered = false;
    let bits: Vec<char> = ic.chars().collect();
    if bits.len() != case.docs.len() {
        return Outcome::Skip(format!("unexpected worker answer {ic:?}"));
    }
    for (i, d) in case.docs.iter().enumerate() {
        let here = match engine::matches(&rule, d) {
            Ok(b) => b,
            Err(p) => return Outcome::Violation(format!("matches panicked: {p}")),
        };
        evals += 2;
        let there = match bits[i] {
            '1' => true,
            '0' => false,
            _ => return Outcome::Violation(format!("the ignore_case build panicked while matching doc #{i}")),
        };
        if here != there {
            return Outcome::Violation(format!(
                "doc #{i} {}: the ignore_case build gives {there} for the rule as written, the default build gives {here} for the same rule with every string pattern i-prefixed",
                d.show()
            ));
        }
        if let Some(rr) = &refrule {
            let ev = Evaluator::new(rr, EvalOpts::default());
            let set = ev.eval(d);
            if !verdict_admissible(set, there) {
                return Outcome::Violation(format!(
                    "doc #{i} {}: the ignore_case build gives {there}, but with every string predicate case-insensitive and no i prefix interpreted the rule language admits only {}",
                    d.show(),
                    reference::show_set(set)
                ));
            }
        }
        if let Some(p) = &plain {
            if let Ok(b) = engine::matches(p, d) {
                if b != here {
                    case_mattered = true;
                }
            }
        }
    }
    Outcome::Pass {
        nontrivial: if case_mattered { Some(hash_str(as_written)) } else { None },
        evaluations: evals,
        labels: if case_mattered { vec!["case_insensitivity_changed_a_verdict"] } else { vec![] },
    }
}

pub fn run(tier: &str, seed: u64) -> i32 {
    let mut report = Report::new(ID, tier, seed);
    report.rule = "grammar-G rules (patterns of every kind, about a third of them already i-prefixed, some starting with \
        the letter i) x 6 recipe documents and their ASCII case-swapped copies; string-heavy rules on one field (lists, \
        quantified lists, str() casts, case twins) x every value that satisfies a member and its case-swapped copy; \
        rules over few shared fields (or-groups, nested blocks). The ignore_case build of the harness \
        (target-ic, tau-engine/ignore_case) evaluates each rule as written; the default build evaluates the same \
        rule with `i` prepended to every string scalar in pattern position; the verdicts must be equal document by \
        document, and must be admissible for the reference interpreter in ignore_case mode. Non-trivial: \
        case-insensitivity changes at least one verdict of the rule (compared with the default build on the rule as \
        written); distinct by rule text."
        .into();
    report.assumptions = vec!["the ignore_case binary is built by check.sh from the same /repo working tree into harness/target-ic".into()];
    if !ic_binary().exists() {
        eprintln!("the ignore_case build ({}) is missing; run check.sh C15 or setup.sh", ic_binary().display());
        return 2;
    }
    let findings = load_findings();
    replay_findings(&mut report, &findings, &judge);
    let n = if tier == "thorough" { 250_000 } else { 8_000 };
    gen::drive(
        &mut report,
        110,
        n,
        || (gen::rule(gen::RuleOpts::default()), prop::collection::vec(gen::doc_recipe(), 6), any::<bool>()),
        |(rule, recipes, i_names): &(RuleSpec, Vec<gen::DocRecipe>, bool)| {
            if !rule.well_formed() {
                return vec![];
            }
            let mut det = rule.detection_yaml();
            if *i_names {
                // patterns that themselves begin with the letter i
                if let Y::Mapping(m) = &mut det {
                    for (k, v) in m.iter_mut() {
                        if k.as_str() != Some("condition") {
                            if let Y::Mapping(b) = v {
                                for (_, x) in b.iter_mut() {
                                    if let Y::String(s) = x {
                                        if s.chars().next().map(|c| c.is_ascii_alphabetic()).unwrap_or(false) {
                                            *s = format!("i{s}");
                                        }
                                    }
                                }
                            }
                        }
                    }
                }
            }
            let mut c = Case::new("c15.pair");
            c.rules = vec![engine::rule_text(&det, &[], &[]), engine::rule_text(&i_prefix(&det), &[], &[])];
            let base: Vec<DObj> = recipes.iter().map(|r| gen::build_doc(rule, r)).collect();
            let mut docs = base.clone();
            for d in &base {
                if let DocVal::Obj(o) = swapcase(&DocVal::Obj(d.clone())) {
                    docs.push(o);
                }
            }
            c.docs = docs;
            vec![c]
        },
        judge,
        |_, _| {},
    );
    // string-heavy rules on one field (lists, quantified lists, str() casts, case twins) against
    // every satisfying value and its case-swapped copy: here the case flag decides most verdicts
    gen::drive(
        &mut report,
        111,
        n / 4,
        gen::rule_same_field_focus,
        |rule: &RuleSpec| {
            if !rule.well_formed() {
                return vec![];
            }
            let det = rule.detection_yaml();
            let mut c = Case::new("c15.pair");
            c.rules = vec![engine::rule_text(&det, &[], &[]), engine::rule_text(&i_prefix(&det), &[], &[])];
            c.docs = gen::same_field_docs_for(rule, "f1");
            vec![c]
        },
        judge,
        |_, rep| rep.label("same_field_rule"),
    );
    // optimiser-shaped rules (few shared fields, or-groups, nested blocks)
    gen::drive(
        &mut report,
        112,
        n / 4,
        || (gen::rule_focus(true), prop::collection::vec(gen::doc_recipe(), 6)),
        |(rule, recipes): &(RuleSpec, Vec<gen::DocRecipe>)| {
            if !rule.well_formed() {
                return vec![];
            }
            let det = rule.detection_yaml();
            let mut c = Case::new("c15.pair");
            c.rules = vec![engine::rule_text(&det, &[], &[]), engine::rule_text(&i_prefix(&det), &[], &[])];
            let base: Vec<DObj> = recipes.iter().map(|r| gen::build_doc(rule, r)).collect();
            let mut docs = base.clone();
            for d in &base {
                if let DocVal::Obj(o) = swapcase(&DocVal::Obj(d.clone())) {
                    docs.push(o);
                }
            }
            c.docs = docs;
            vec![c]
        },
        judge,
        |_, rep| rep.label("shared_field_rule"),
    );
    report.finish()
}
