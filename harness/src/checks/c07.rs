//! C07 String predicates are exact for all strings, single or batched.

use proptest::prelude::*;
use serde_json::json;

use crate::checks::c02;
use crate::common::*;
use crate::engine::Tri;
use crate::gen;
use crate::model::{DObj, DocVal};
use crate::spec::*;

pub const ID: &str = "C07";

pub fn judge(case: &Case) -> Outcome {
    if case.kind == "c07.regex_sets" {
        // regexes on one field in separate mappings: engine vs engine under all 16 switch sets
        return crate::checks::c01::judge(case);
    }
    let results = match c02::eval_case(case) {
        Ok(r) => r,
        Err(o) => return o,
    };
    let t = results.iter().any(|(r, _, _)| *r == Tri::T);
    let n = results.iter().any(|(r, _, _)| *r != Tri::T);
    let mut labels = vec![];
    for (tri, set, _) in &results {
        labels.push(match tri {
            Tri::T => "result_true",
            Tri::F => "result_false",
            Tri::M => "result_missing",
            Tri::Both => "result_both",
        });
        if set.count_ones() != 1 {
            labels.push("oracle_set_valued");
        }
    }
    Outcome::Pass {
        nontrivial: if t && n { Some(hash_str(&case.rules[0])) } else { None },
        evaluations: 2 * results.len() as u64,
        labels,
    }
}

fn single_field_rule(val: ValSpec) -> RuleSpec {
    RuleSpec {
        idents: vec![("A".to_string(), Body::Map(Block(vec![Entry { key: KeySpec::plain("h"), val }])))],
        cond: CondSpec::Ident("A".to_string()),
    }
}

fn case_for(kind: &str, val: ValSpec, docs: &[DObj], form: &str) -> Case {
    let rule = single_field_rule(val);
    let mut c = Case::new(kind);
    c.rules = vec![rule.text(), rule.negated_text()];
    c.docs = docs.to_vec();
    c.extra = json!({ "form": form });
    c
}

fn strings_over(alphabet: &[char], max_len: usize) -> Vec<String> {
    let mut out = vec![String::new()];
    let mut layer = vec![String::new()];
    for _ in 0..max_len {
        let mut next = vec![];
        for s in &layer {
            for c in alphabet {
                let mut t = s.clone();
                t.push(*c);
                next.push(t);
            }
        }
        out.extend(next.iter().cloned());
        layer = next;
    }
    out
}

fn docs_of(hays: &[String]) -> Vec<DObj> {
    hays.iter().map(|h| DObj(vec![("h".to_string(), DocVal::Str(h.clone()))])).collect()
}

fn forms(needle: &str) -> Vec<(String, &'static str)> {
    vec![
        (needle.to_string(), "exact"),
        (format!("\"{needle}\""), "exact dq"),
        (format!("'{needle}'"), "exact sq"),
        (format!("{needle}*"), "prefix"),
        (format!("*{needle}"), "suffix"),
        (format!("*{needle}*"), "contains"),
    ]
}

pub fn build_cases(tier: &str) -> Vec<Case> {
    let mut cases = vec![];
    let alpha = ['a', 'b', 'A'];
    // singles: needles of length 0..3 x haystacks of length 0..4, every relation, quoted or not,
    // with and without i
    let needles = strings_over(&alpha, 3);
    let mut hays = strings_over(&alpha, 4);
    // line feeds: `^`, `$` and `.` treat them specially
    for h in ["\n", "a\n", "\na", "b\na", "a\nb", "ab\nb", "b\nab", "a\n\nb", "A\nb"] {
        hays.push(h.to_string());
    }
    let docs = docs_of(&hays);
    for n in &needles {
        for (text, form) in forms(n) {
            for ci in [false, true] {
                let t = if ci { format!("i{text}") } else { text.clone() };
                cases.push(case_for("c07.single", ValSpec::Str(t.clone()), &docs, form));
                // the same pattern as the only member of a list
                cases.push(case_for("c07.single_in_list", ValSpec::List(vec![ValSpec::Str(t)]), &docs, form));
            }
        }
    }
    // `*` and a small regex grammar
    let mut singles: Vec<String> = vec!["*".into(), "i*".into(), "**".into(), "i**".into(), "***".into()];
    for re in [
        "a", "^a", "a$", "a.b", "a|b", "[ab]+", "a*", "^$", "A", "ab", "^ab", "b$", ".*a", "a.*", ".*a.*", "(?i)a", "\\.", "a{2}",
        // outer wildcards pinned to the start / the end: `.` does not match a line feed
        "^.*a", "a.*$", "^.*ab", "ab.*$", "^.*a.*$", ".a", "a.",
    ] {
        singles.push(format!("?{re}"));
        singles.push(format!("i?{re}"));
    }
    for s in singles {
        cases.push(case_for("c07.single", ValSpec::Str(s), &docs, "any/regex"));
    }
    // pairs: needles of length 0..2 x 4 kinds x 2 flags, against haystacks of length 0..3
    let small_needles = strings_over(&alpha, 2);
    let mut pats: Vec<String> = vec![];
    for n in &small_needles {
        for t in [n.clone(), format!("{n}*"), format!("*{n}"), format!("*{n}*")] {
            pats.push(t.clone());
            pats.push(format!("i{t}"));
        }
    }
    pats.push("?a.b".into());
    pats.push("i?^ab".into());
    pats.push("?b$".into());
    pats.push("?^A".into());
    let hays3 = strings_over(&alpha, 3);
    let docs3 = docs_of(&hays3);
    let stride = if tier == "thorough" { 1 } else { 1 };
    for (i, p) in pats.iter().enumerate() {
        for (j, q) in pats.iter().enumerate() {
            if (i + j) % stride != 0 {
                continue;
            }
            cases.push(case_for(
                "c07.pair",
                ValSpec::List(vec![ValSpec::Str(p.clone()), ValSpec::Str(q.clone())]),
                &docs3,
                "pair",
            ));
        }
    }
    // plain lists around and beyond 256 needles of one case class (the members are ordered and
    // batched by relation kind before the automaton is built): every member must still count
    for (len, ci) in [(255usize, false), (256, false), (257, false), (300, true), (512, false), (513, false), (600, true)] {
        let needle = |i: usize| format!("n{:03}x", i);
        let members: Vec<ValSpec> = (0..len)
            .map(|i| {
                let n = needle(i);
                let t = match i % 4 {
                    0 => format!("{n}*"),
                    1 => format!("*{n}*"),
                    2 => format!("*{n}"),
                    _ => n,
                };
                ValSpec::Str(if ci { format!("i{t}") } else { t })
            })
            .collect();
        // documents matched by exactly one member: the first and the last of every relation kind,
        // and near misses
        let mut hays: Vec<String> = vec![];
        for i in (0..8).chain(len - 8..len) {
            let n = needle(i);
            hays.push(match i % 4 {
                0 => format!("{n}zz"),
                1 => format!("zz{n}zz"),
                2 => format!("zz{n}"),
                _ => n.clone(),
            });
            hays.push(format!("z{n}z"));
            hays.push(n.to_uppercase());
        }
        hays.push("zz".into());
        cases.push(case_for("c07.big_list", ValSpec::List(members), &docs_of(&hays), "list beyond 256 needles"));
    }
    cases
}

fn long_needle() -> BoxedStrategy<String> {
    prop_oneof![
        4 => "[abAB]{1,4}",
        2 => "[a-cA-C0-9 ._-]{0,8}",
        2 => "[aAéÉßΩ日]{1,4}",
        1 => "[a\u{130}\u{131}\u{17f}\u{212a}kKsS]{1,3}",
    ]
    .boxed()
}

fn long_pattern() -> BoxedStrategy<String> {
    let form = prop_oneof![
        3 => long_needle(),
        3 => long_needle().prop_map(|n| format!("{n}*")),
        3 => long_needle().prop_map(|n| format!("*{n}")),
        3 => long_needle().prop_map(|n| format!("*{n}*")),
        1 => long_needle().prop_map(|n| format!("'{n}'")),
        1 => long_needle().prop_map(|n| format!("\"{n}\"")),
        // quotes that do not pair up are ordinary characters
        1 => (long_needle(), 0u8..4).prop_map(|(n, k)| match k {
            0 => format!("\"{n}'"),
            1 => format!("'{n}\""),
            2 => format!("\"{n}"),
            _ => format!("{n}\""),
        }),
        2 => prop::sample::select(vec![
            "?a", "?^a", "?b$", "?a.b", "?[ab]+c", "?é", "?^.a", "?\\d", "?a|B", "?.*ab.*", "?^.*a", "?b.*$", "?^.*ab", "?ab.*$", "?.b",
            // anchored literals: Unicode case folding knows K (U+212A) and U+017F, ASCII folding does not
            "?^k$", "?^s", "?k$", "?^ks$", "?sk",
        ])
        .prop_map(|s| s.to_string()),
    ];
    (form, prop::bool::weighted(0.4))
        .prop_map(|(f, ci)| if ci { format!("i{f}") } else { f })
        .prop_filter("loadable string pattern", |t| {
            matches!(crate::reference::parse_pattern(t, false), Ok(p) if p.is_string_kind())
        })
        .boxed()
}

/// Haystacks related to the members: each member's needle embedded at start / middle / end, case
/// flipped, truncated; plus unrelated strings.
fn haystacks_for(members: &[String], extra: &[String], variant: &[u8]) -> Vec<String> {
    let mut out: Vec<String> = extra.to_vec();
    for (i, m) in members.iter().enumerate() {
        let core = match crate::reference::parse_pattern(m, false) {
            Ok(p) => match p.pat {
                crate::reference::Pat::Exact(x)
                | crate::reference::Pat::Prefix(x)
                | crate::reference::Pat::Suffix(x)
                | crate::reference::Pat::Contains(x) => x,
                _ => "ab".to_string(),
            },
            Err(_) => continue,
        };
        // the text between the first and last character, which is what a wrongly unquoted pattern
        // would look for
        if core.chars().count() >= 2 {
            let inner: String = core.chars().skip(1).take(core.chars().count() - 2).collect();
            out.push(inner);
        }
        let v = variant.get(i).copied().unwrap_or(0);
        let flip: String = core
            .chars()
            .map(|c| if c.is_ascii_lowercase() { c.to_ascii_uppercase() } else { c.to_ascii_lowercase() })
            .collect();
        let base = if v & 1 == 1 { flip } else { core.clone() };
        out.push(base.clone());
        out.push(format!("{base}x"));
        out.push(format!("x{base}"));
        out.push(format!("x{base}x"));
        let mut chars: Vec<char> = base.chars().collect();
        if !chars.is_empty() {
            chars.pop();
            out.push(chars.iter().collect());
        }
        out.push(format!("{base}{base}"));
        out.push(core.to_uppercase());
        out.push(core.to_lowercase());
    }
    out.truncate(40);
    out
}

pub fn run(tier: &str, seed: u64) -> i32 {
    let mut report = Report::new(ID, tier, seed);
    report.rule = "exhaustive part: needles over {a,b,A} of length 0..3 x haystacks of length 0..4 x {exact, \
        \"quoted\", 'quoted', prefix, suffix, contains} x {plain, i-prefixed}, alone and as one-member list; `*` and \
        a small regex grammar; all ordered pairs of 108 patterns (needle length 0..2 x 4 relations x 2 case flags + \
        regexes) as two-member lists against haystacks of length 0..3. Sampled part: lists of 1-6 mixed members \
        (longer needles, multi-byte and special-casing letters, regexes) against haystacks derived from the \
        members (needle at start/middle/end, case-flipped, truncated, doubled) and arrays of them. Oracle: \
        independent pattern parser + ==/starts_with/ends_with/contains on ASCII-folded strings (regex crate for \
        regex members); a list is the OR of its members. Long needles (64 bytes to 1 KiB, thorough 4 KiB, around powers of two) of every relation and case flag, alone and in lists next to a short or another long member, against the needle, its case-flipped copy and one-off neighbours. Regexes include outer wildcards pinned to the start / end \
        and haystacks include line feeds. Every document is also matched against the rule optimised with the default switches and with one further switch set; a verdict that differs from the rule as loaded must be explained by the known findings K1 / K2 (relaxed reference for that switch set). Non-trivial: a rule for which some haystack matches and \
        some does not; distinct by rule text."
        .into();
    report.assumptions = vec![
        "regex semantics are delegated to the regex crate; its wiring (unanchored search, case flag) is what is tested".into(),
    ];
    let findings = load_findings();
    replay_findings(&mut report, &findings, &judge);
    let cases = build_cases(tier);
    let chunks: Vec<Report> = par_run(|w, n| {
        let mut sub = report.sub();
        for (i, c) in cases.iter().enumerate() {
            if i % n != w {
                continue;
            }
            let out = judge(c);
            sub.label(&format!("form:{}", c.extra["form"].as_str().unwrap_or("?")));
            sub.record(c, out);
        }
        sub
    });
    for s in chunks {
        report.merge(s);
    }
    // regexes that compile on their own but not as one set stay separate searches, each with its
    // own case flag
    for body in [
        "  - h: 'i?a\\w{100}'\n  - h: 'i?b\\w{100}'\n  - h: 'i?c\\w{100}'\n",
        "  - h: '?a\\w{100}'\n  - h: 'i?b\\w{100}'\n  - h: '?c\\w{100}'\n  - h: 'i?d\\w{100}'\n  - h: 'i?e\\w{100}'\n",
    ] {
        let mut c = Case::new("c07.regex_sets");
        c.rules = vec![format!("detection:\n  A:\n{body}  condition: A\ntrue_positives: []\ntrue_negatives: []\n")];
        c.docs = ["A", "B", "a", "C", "e", "E", "z"]
            .iter()
            .flat_map(|h| [format!("{h}{}", "x".repeat(100)), format!("{h}{}", "X".repeat(100))])
            .map(|t| DObj(vec![("h".to_string(), DocVal::Str(t))]))
            .collect();
        let out = judge(&c);
        report.label("regexes_beyond_the_set_size_limit");
        report.record(&c, out);
    }
    // long needles (around powers of two, up to 1 KiB; thorough 4 KiB) of every relation and case flag, alone and
    // as members of a list next to a short member or a second long one: a member decides by the
    // documented relation whatever its length and whatever company it keeps
    {
        let mut long_cases = vec![];
        let lengths: &[usize] = if tier == "thorough" {
            &[63, 64, 65, 127, 128, 129, 255, 256, 257, 300, 511, 512, 513, 1000, 1023, 1024, 1025, 2049, 4097]
        } else {
            &[64, 255, 256, 257, 1000, 1025]
        };
        for &len in lengths {
            let needle: String = (0..len).map(|i| ['a', 'B', 'c', 'a', 'b', 'Z'][(i * 7 + i / 5) % 6]).collect();
            let flip: String = needle.chars().map(|c| if c.is_ascii_lowercase() { c.to_ascii_uppercase() } else { c.to_ascii_lowercase() }).collect();
            let mut short = needle.clone();
            short.pop();
            let hays: Vec<String> = vec![
                needle.clone(), flip.clone(), format!("{needle}x"), format!("x{needle}"), format!("x{flip}x"), format!("{flip}x"),
                format!("x{flip}"), short, "zz".to_string(), String::new(),
            ];
            let docs = docs_of(&hays);
            for (rel, text) in [("exact", needle.clone()), ("prefix", format!("{needle}*")), ("suffix", format!("*{needle}")), ("contains", format!("*{needle}*")), ("quoted", format!("\"{needle}\""))] {
                for ci in [false, true] {
                    let m = if ci { format!("i{text}") } else { text.clone() };
                    let other_long = if ci { format!("*{}q*", &needle[..len - 1]) } else { format!("i*{}q*", &needle[..len - 1]) };
                    for val in [
                        ValSpec::Str(m.clone()),
                        ValSpec::List(vec![ValSpec::Str(m.clone()), ValSpec::Str("zzz".into())]),
                        ValSpec::List(vec![ValSpec::Str("izzz".into()), ValSpec::Str(m.clone())]),
                        ValSpec::List(vec![ValSpec::Str(other_long.clone()), ValSpec::Str(m.clone()), ValSpec::Str("?^q+$".into())]),
                    ] {
                        let mut c = case_for("c07.long_needle", val, &docs, "long");
                        c.extra = json!({"form": "long", "relation": rel, "needle_bytes": len, "case_insensitive": ci});
                        long_cases.push(c);
                    }
                }
            }
        }
        let chunks: Vec<Report> = par_run(|w, n| {
            let mut sub = report.sub();
            for (i, c) in long_cases.iter().enumerate() {
                if i % n != w {
                    continue;
                }
                let out = judge(c);
                sub.label("long_needle");
                sub.record(c, out);
            }
            sub
        });
        for s in chunks {
            report.merge(s);
        }
    }
    let n = if tier == "thorough" { 400_000 } else { 20_000 };
    let strat = || {
        (
            prop::collection::vec(long_pattern(), 1..=6),
            prop::collection::vec(prop_oneof![3 => "[abAB éÉ\n]{0,6}", 1 => "[kKsS\u{212a}\u{17f}]{1,2}"], 0..=4),
            prop::collection::vec(any::<u8>(), 6),
            any::<bool>(),
            prop::bool::weighted(0.25),
        )
    };
    gen::drive(
        &mut report,
        3,
        n,
        strat,
        |(members, extra, variant, as_array, twins): &(Vec<String>, Vec<String>, Vec<u8>, bool, bool)| {
            // now and then every member also appears with the other case flag (equal needles, one
            // batch case-sensitive and one case-insensitive)
            let members: Vec<String> = if *twins {
                members
                    .iter()
                    .cloned()
                    .chain(members.iter().map(|m| match m.strip_prefix('i') {
                        Some(rest) if !rest.is_empty() => rest.to_string(),
                        _ => format!("i{m}"),
                    }))
                    .filter(|t| matches!(crate::reference::parse_pattern(t, false), Ok(p) if p.is_string_kind()))
                    .collect()
            } else {
                members.clone()
            };
            let members = &members;
            let hays = haystacks_for(members, extra, variant);
            let mut docs = docs_of(&hays);
            docs.push(DObj::default());
            if *as_array {
                // arrays of strings: some element has to match
                let arrs: Vec<DObj> = hays
                    .chunks(3)
                    .map(|ch| DObj(vec![("h".to_string(), DocVal::arr(ch.iter().map(|s| DocVal::Str(s.clone())).collect()))]))
                    .collect();
                docs.extend(arrs);
            }
            let val = if members.len() == 1 {
                ValSpec::Str(members[0].clone())
            } else {
                ValSpec::List(members.iter().map(|m| ValSpec::Str(m.clone())).collect())
            };
            vec![case_for("c07.sampled_list", val, &docs, "sampled")]
        },
        judge,
        |(members, _, _, _, _), rep| {
            rep.label(&format!("list_len_{}", members.len()));
            if members.iter().any(|m| !m.is_ascii()) {
                rep.label("has_multibyte_member");
            }
        },
    );
    report.finish()
}
