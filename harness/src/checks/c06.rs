//! C06 Three-valued connectives obey their truth tables (complete enumeration).

use serde_json::json;

use crate::common::*;
use crate::engine::{self, Load, Tri};
use crate::model::{DObj, DocVal};

pub const ID: &str = "C06";

#[derive(Clone, Copy, PartialEq, Debug)]
enum V {
    T,
    F,
    M,
}
use V::*;

fn and2(a: V, b: V) -> V {
    if a != T {
        a
    } else {
        b
    }
}
fn or2(a: V, b: V) -> V {
    if a == T || b == T {
        T
    } else if a == F || b == F {
        F
    } else {
        M
    }
}
fn not1(a: V) -> V {
    match a {
        T => F,
        F => T,
        M => F,
    }
}
fn and_n(v: &[V]) -> V {
    for x in v {
        if *x != T {
            return *x;
        }
    }
    T
}
fn or_n(v: &[V]) -> V {
    v.iter().fold(M, |acc, x| or2(acc, *x))
}

fn vname(v: V) -> &'static str {
    match v {
        T => "T",
        F => "F",
        M => "M",
    }
}

/// expected strings: "T" / "F" / "M" exact three-valued result; "true" / "nottrue" truth only.
fn judge_impl(case: &Case) -> Outcome {
    let expected: Vec<String> = match case.extra.get("expected").and_then(|e| e.as_array()) {
        Some(a) => a.iter().map(|x| x.as_str().unwrap_or("").to_string()).collect(),
        None => return Outcome::Skip("case without expectations".into()),
    };
    let mut rules = vec![];
    for t in &case.rules {
        match engine::load_text(t) {
            Load::Ok(r) => rules.push(r),
            Load::Rejected(e) => return Outcome::Violation(format!("connective form does not load: {e}\n{t}")),
            Load::Panicked(p) => return Outcome::Violation(format!("loader panicked: {p}")),
        }
    }
    let mut evals = 0;
    for (i, doc) in case.docs.iter().enumerate() {
        let pos = match engine::matches(&rules[0], doc) {
            Ok(b) => b,
            Err(p) => return Outcome::Violation(format!("matches panicked: {p}")),
        };
        let neg = match engine::matches(&rules[1], doc) {
            Ok(b) => b,
            Err(p) => return Outcome::Violation(format!("matches panicked: {p}")),
        };
        evals += 2;
        let tri = Tri::from_probe(pos, neg);
        let ok = match expected[i].as_str() {
            "T" => tri == Tri::T,
            "F" => tri == Tri::F,
            "M" => tri == Tri::M,
            "true" => tri == Tri::T,
            "nottrue" => tri == Tri::F || tri == Tri::M,
            _ => true,
        };
        if !ok {
            return Outcome::Violation(format!(
                "form {} operands {}: table says {} but engine gives {} (matches={pos}, not(..) matches={neg})",
                case.extra.get("form").and_then(|f| f.as_str()).unwrap_or("?"),
                case.extra.get("vectors").and_then(|v| v.get(i)).map(|v| v.to_string()).unwrap_or_default(),
                expected[i],
                tri.show()
            ));
        }
    }
    // the tables hold for Rule::matches whatever the rule went through: optimised rules have to
    // agree with the rule as loaded, up to the known findings K1 / K2
    for (t, r, which) in [(&case.rules[0], &rules[0], ""), (&case.rules[1], &rules[1], "negated ")] {
        let rr = crate::reference::load_rule_text(t, false).ok();
        if let Err(o) = crate::checks::c02::optimised_agreement(t, r, rr.as_ref(), which, &case.docs) {
            return o;
        }
        evals += 2 * case.docs.len() as u64;
    }
    Outcome::Pass { nontrivial: None, evaluations: evals, labels: vec![] }
}

pub fn judge(case: &Case) -> Outcome {
    match case.kind.as_str() {
        // connectives over operands that are not independent (several predicates on one field,
        // with and without casts): judged against the reference interpreter, and the optimised
        // rule against the rule as loaded
        "c06.reference" => match crate::checks::c02::eval_case(case) {
            Ok(r) => {
                let t = r.iter().any(|x| x.0 == Tri::T);
                let n = r.iter().any(|x| x.0 != Tri::T);
                Outcome::Pass {
                    nontrivial: if t && n { Some(hash_str(&case.rules[0])) } else { None },
                    evaluations: 6 * case.docs.len() as u64,
                    labels: vec!["same_field_connective_rule"],
                }
            }
            Err(o) => o,
        },
        // all() / of() over key lists of 62-130 members (beyond the enumerated arities)
        "c08.members" => crate::checks::c08::judge(case),
        _ => judge_impl(case),
    }
}

fn all_vectors(k: usize, alphabet: &[V]) -> Vec<Vec<V>> {
    let mut out = vec![vec![]];
    for _ in 0..k {
        let mut next = vec![];
        for v in &out {
            for a in alphabet {
                let mut w = v.clone();
                w.push(*a);
                next.push(w);
            }
        }
        out = next;
    }
    out
}

/// document for operand vector over fields g1..gk (operand i: field = "v" true, "w" false, absent)
fn doc_for(vec: &[V]) -> DObj {
    let mut d = DObj::default();
    for (i, v) in vec.iter().enumerate() {
        match v {
            T => d.set(&format!("g{}", i + 1), DocVal::s("v")),
            F => d.set(&format!("g{}", i + 1), DocVal::s("w")),
            M => {}
        }
    }
    d
}

fn rule_text(idents: &str, cond: &str) -> String {
    format!("detection:\n{idents}  condition: {cond}\ntrue_positives: []\ntrue_negatives: []\n")
}

fn atoms(k: usize) -> String {
    (1..=k).map(|i| format!("  X{i}:\n    g{i}: v\n")).collect()
}

#[derive(Clone, Debug)]
enum Tree {
    Leaf(usize),
    Node(Box<Tree>, bool, Box<Tree>), // true = and
    Not(Box<Tree>),
}

fn trees(lo: usize, hi: usize) -> Vec<Tree> {
    // all binary trees over leaves lo..hi with every operator assignment
    if hi - lo == 1 {
        return vec![Tree::Leaf(lo)];
    }
    let mut out = vec![];
    for split in lo + 1..hi {
        for l in trees(lo, split) {
            for r in trees(split, hi) {
                for op in [true, false] {
                    out.push(Tree::Node(Box::new(l.clone()), op, Box::new(r.clone())));
                }
            }
        }
    }
    out
}

fn tree_text(t: &Tree) -> String {
    match t {
        Tree::Leaf(i) => format!("X{}", i + 1),
        Tree::Node(l, op, r) => format!("({} {} {})", tree_text(l), if *op { "and" } else { "or" }, tree_text(r)),
        Tree::Not(x) => format!("not {}", tree_text(x)),
    }
}

fn tree_eval(t: &Tree, v: &[V]) -> V {
    match t {
        Tree::Leaf(i) => v[*i],
        Tree::Node(l, op, r) => {
            let a = tree_eval(l, v);
            let b = tree_eval(r, v);
            if *op {
                and2(a, b)
            } else {
                or2(a, b)
            }
        }
        Tree::Not(x) => not1(tree_eval(x, v)),
    }
}

fn push_case(
    cases: &mut Vec<Case>,
    form: &str,
    idents: &str,
    cond: &str,
    vectors: &[Vec<V>],
    docs: Vec<DObj>,
    expected: Vec<String>,
) {
    let mut c = Case::new("c06.table");
    c.rules = vec![rule_text(idents, cond), rule_text(idents, &format!("not ({cond})"))];
    c.docs = docs;
    c.extra = json!({
        "form": form,
        "condition": cond,
        "vectors": vectors.iter().map(|v| v.iter().map(|x| vname(*x)).collect::<Vec<_>>().join("")).collect::<Vec<_>>(),
        "expected": expected,
    });
    cases.push(c);
}

fn quant_expect(vec: &[V], all: bool, n: u64) -> &'static str {
    let t = vec.iter().filter(|x| **x == T).count() as u64;
    let f = vec.iter().filter(|x| **x == F).count() as u64;
    let truth = if all {
        t == vec.len() as u64
    } else if n == 0 {
        t == 0 && f > 0
    } else {
        t >= n
    };
    if truth {
        "true"
    } else {
        "nottrue"
    }
}

pub fn build_cases(tier: &str) -> Vec<Case> {
    let max_k = if tier == "thorough" { 5 } else { 4 };
    let tfm = [T, F, M];
    let mut cases = vec![];

    // 1. `not`, bootstrapped from atoms whose result is known by construction
    {
        let vecs = all_vectors(1, &tfm);
        let docs: Vec<DObj> = vecs.iter().map(|v| doc_for(v)).collect();
        for depth in 0..=3 {
            let mut t = Tree::Leaf(0);
            for _ in 0..depth {
                t = Tree::Not(Box::new(t));
            }
            let exp = vecs.iter().map(|v| vname(tree_eval(&t, v)).to_string()).collect();
            push_case(&mut cases, &format!("not^{depth} atom"), &atoms(1), &tree_text(&t), &vecs, docs.clone(), exp);
        }
        // not(k) key modifier
        let idents = "  X1:\n    not(g1): v\n";
        let exp = vecs.iter().map(|v| vname(not1(v[0])).to_string()).collect();
        push_case(&mut cases, "not(k) key", idents, "X1", &vecs, docs.clone(), exp);
        let exp = vecs.iter().map(|v| vname(not1(not1(v[0]))).to_string()).collect();
        push_case(&mut cases, "not over not(k) key", idents, "not X1", &vecs, docs, exp);
    }

    for k in 1..=max_k {
        let vecs = all_vectors(k, &tfm);
        let docs: Vec<DObj> = vecs.iter().map(|v| doc_for(v)).collect();

        // 2. binary condition trees, every parenthesisation and operator assignment
        if k >= 2 && k <= 4 {
            for t in trees(0, k) {
                let exp = vecs.iter().map(|v| vname(tree_eval(&t, v)).to_string()).collect();
                push_case(&mut cases, "binary tree", &atoms(k), &tree_text(&t), &vecs, docs.clone(), exp);
                // and negated sub-trees
                let nt = Tree::Not(Box::new(t.clone()));
                let exp = vecs.iter().map(|v| vname(tree_eval(&nt, v)).to_string()).collect();
                push_case(&mut cases, "negated binary tree", &atoms(k), &tree_text(&nt), &vecs, docs.clone(), exp);
            }
            // unparenthesised homogeneous chains
            for op in ["and", "or"] {
                let cond = (1..=k).map(|i| format!("X{i}")).collect::<Vec<_>>().join(&format!(" {op} "));
                let exp = vecs
                    .iter()
                    .map(|v| vname(if op == "and" { and_n(v) } else { or_n(v) }).to_string())
                    .collect();
                push_case(&mut cases, &format!("{op} chain"), &atoms(k), &cond, &vecs, docs.clone(), exp);
            }
        }

        // 3. mapping group (conjunction in written order) and sequence group (disjunction)
        let map_ident: String =
            std::iter::once("  A:\n".to_string()).chain((1..=k).map(|i| format!("    g{i}: v\n"))).collect();
        let exp = vecs.iter().map(|v| vname(and_n(v)).to_string()).collect();
        push_case(&mut cases, "mapping group", &map_ident, "A", &vecs, docs.clone(), exp);
        let seq_ident: String =
            std::iter::once("  A:\n".to_string()).chain((1..=k).map(|i| format!("  - g{i}: v\n"))).collect();
        let exp = vecs.iter().map(|v| vname(or_n(v)).to_string()).collect();
        push_case(&mut cases, "sequence group", &seq_ident, "A", &vecs, docs.clone(), exp);
        // nested mapping group under an object
        let nested_ident: String = std::iter::once("  A:\n    o:\n".to_string())
            .chain((1..=k).map(|i| format!("      g{i}: v\n")))
            .collect();
        let ndocs: Vec<DObj> =
            vecs.iter().map(|v| DObj(vec![("o".to_string(), DocVal::Obj(doc_for(v)))])).collect();
        let exp = vecs.iter().map(|v| vname(and_n(v)).to_string()).collect();
        push_case(&mut cases, "nested mapping group", &nested_ident, "A", &vecs, ndocs, exp);

        // 4. all(A) / of(A, n) over sequence identifiers and over mapping identifiers
        for (form, ident) in [("seq identifier", &seq_ident), ("map identifier", &map_ident)] {
            let exp = vecs.iter().map(|v| quant_expect(v, true, 0).to_string()).collect();
            push_case(&mut cases, &format!("all(A) over {form}"), ident, "all(A)", &vecs, docs.clone(), exp);
            for n in 0..=(k as u64 + 1) {
                let exp = vecs.iter().map(|v| quant_expect(v, false, n).to_string()).collect();
                push_case(
                    &mut cases,
                    &format!("of(A,{n}) over {form}"),
                    ident,
                    &format!("of(A, {n})"),
                    &vecs,
                    docs.clone(),
                    exp,
                );
            }
        }

        // 5. key lists on one field: members *a* *b* *c* *d* *e* against subset strings
        let letters = ["a", "b", "c", "d", "e"];
        let tf_vecs = all_vectors(k, &[T, F]);
        let mut lvecs = tf_vecs.clone();
        lvecs.push(vec![M; k]);
        let ldocs: Vec<DObj> = lvecs
            .iter()
            .map(|v| {
                if v[0] == M && v.iter().all(|x| *x == M) {
                    DObj::default()
                } else {
                    let s: String =
                        std::iter::once("-").chain(v.iter().enumerate().filter(|(_, x)| **x == T).map(|(i, _)| letters[i])).collect();
                    DObj(vec![("h".to_string(), DocVal::Str(s))])
                }
            })
            .collect();
        let members: String = (0..k).map(|i| format!("    - '*{}*'\n", letters[i])).collect();
        let plain = format!("  A:\n    h:\n{members}");
        let exp = lvecs.iter().map(|v| vname(or_n(v)).to_string()).collect();
        push_case(&mut cases, "plain key list", &plain, "A", &lvecs, ldocs.clone(), exp);
        let allk = format!("  A:\n    all(h):\n{members}");
        let exp = lvecs.iter().map(|v| quant_expect(v, true, 0).to_string()).collect();
        push_case(&mut cases, "all(k) key list", &allk, "A", &lvecs, ldocs.clone(), exp);
        for n in 0..=(k as u64 + 1) {
            let ofk = format!("  A:\n    of(h, {n}):\n{members}");
            let exp = lvecs.iter().map(|v| quant_expect(v, false, n).to_string()).collect();
            push_case(&mut cases, &format!("of(k,{n}) key list"), &ofk, "A", &lvecs, ldocs.clone(), exp);
        }
    }

    if tier == "thorough" {
        // forms nested one inside another: quantifier over identifiers whose entries are groups
        for k in 2..=3usize {
            let vecs = all_vectors(2 * k, &[T, F, M]);
            let docs: Vec<DObj> = vecs.iter().map(|v| doc_for(v)).collect();
            // entry i is a mapping {g(2i+1): v, g(2i+2): v}
            let seq: String = std::iter::once("  A:\n".to_string())
                .chain((0..k).map(|i| format!("  - g{}: v\n    g{}: v\n", 2 * i + 1, 2 * i + 2)))
                .collect();
            let entry = |v: &Vec<V>| -> Vec<V> { (0..k).map(|i| and2(v[2 * i], v[2 * i + 1])).collect() };
            let exp = vecs.iter().map(|v| vname(or_n(&entry(v))).to_string()).collect();
            push_case(&mut cases, "sequence of two-entry mappings", &seq, "A", &vecs, docs.clone(), exp);
            let exp = vecs.iter().map(|v| quant_expect(&entry(v), true, 0).to_string()).collect();
            push_case(&mut cases, "all(A) over sequence of two-entry mappings", &seq, "all(A)", &vecs, docs.clone(), exp);
            for n in 0..=(k as u64 + 1) {
                let exp = vecs.iter().map(|v| quant_expect(&entry(v), false, n).to_string()).collect();
                push_case(
                    &mut cases,
                    &format!("of(A,{n}) over sequence of two-entry mappings"),
                    &seq,
                    &format!("of(A, {n})"),
                    &vecs,
                    docs.clone(),
                    exp,
                );
            }
        }
    }
    cases
}

pub fn run(tier: &str, seed: u64) -> i32 {
    let mut report = Report::new(ID, tier, seed);
    report.exhaustive = true;
    report.rule = "complete enumeration: connective forms {not^n, not(k), every binary and/or tree with every \
        parenthesisation, unparenthesised chains, mapping group, sequence group, nested mapping group, all(A)/of(A,n) \
        over sequence and mapping identifiers, plain / all(k) / of(k,n) key lists} x arity 1..4 (thorough: 5 and \
        nested forms) x every operand vector in {T,F,M}^k (key lists: {T,F}^k and all-missing) x thresholds 0..k+1. \
        Operands are realised by documents (field = v true, = w false, absent missing). and/or/not are compared as \
        full three-valued results recovered by probing C and not (C); all/of on truth. Beyond the enumerated arities: all(k)/of(k,n) over key lists of 62-130 members (quantified form vs \
        its members), and connectives over 3-6 predicates that share one field (mixed casts, negations, \
        quantifiers x every value kind) judged by the reference interpreter. Every document is also matched against the rule optimised with the default switches and with one further switch set; a verdict that differs from the rule as loaded must be explained by the known findings K1 / K2 (relaxed reference for that switch set). Non-trivial: operand vector \
        holds at least two different values; distinct by (form, condition, vector)."
        .into();
    report.assumptions = vec!["the tables are those stated in the property; of(0) is expected true exactly when no operand is true and at least one is false".into()];
    let findings = load_findings();
    replay_findings(&mut report, &findings, &judge);
    let cases = build_cases(tier);
    let chunks: Vec<Report> = par_run(|w, n| {
        let mut sub = report.sub();
        for (i, c) in cases.iter().enumerate() {
            if i % n != w {
                continue;
            }
            let out = judge(c);
            // count non-trivial vectors of this case
            if let Outcome::Pass { .. } = &out {
                if let Some(vs) = c.extra.get("vectors").and_then(|v| v.as_array()) {
                    for v in vs {
                        let s = v.as_str().unwrap_or("");
                        let mixed = s.chars().collect::<std::collections::HashSet<_>>().len() >= 2;
                        if mixed {
                            sub.nontrivial.insert(hash_str(&format!(
                                "{}|{}|{}",
                                c.extra["form"], c.extra["condition"], s
                            )));
                        }
                    }
                }
                if i % 41 == 0 {
                    sub.sample(json!({"form": c.extra["form"], "condition": c.extra["condition"],
                        "rule": c.rules[0], "vectors": c.extra["vectors"], "expected": c.extra["expected"]}));
                }
                sub.label(c.extra["form"].as_str().unwrap_or("?").split('(').next().unwrap_or("?"));
            }
            sub.record(c, out);
        }
        sub
    });
    for s in chunks {
        report.merge(s);
    }
    // wide arities of the quantifier forms
    let big = crate::checks::c08::big_list_cases(tier);
    let chunks: Vec<Report> = par_run(|w, n| {
        let mut sub = report.sub();
        for (i, c) in big.iter().enumerate() {
            if i % n != w {
                continue;
            }
            let out = judge(c);
            sub.label("quantifier_over_wide_key_list");
            sub.record(c, out);
        }
        sub
    });
    for s in chunks {
        report.merge(s);
    }
    // operands that share one field
    {
        use proptest::prelude::*;
        crate::gen::drive(
            &mut report,
            50,
            if tier == "thorough" { 100_000 } else { 3_000 },
            crate::gen::rule_same_field_focus,
            |rule: &crate::spec::RuleSpec| {
                if !rule.well_formed() {
                    return vec![];
                }
                let mut c = Case::new("c06.reference");
                c.rules = vec![rule.text(), rule.negated_text()];
                c.docs = crate::gen::same_field_docs_for(rule, "f1");
                vec![c]
            },
            judge,
            |_, _| {},
        );
        let _ = any::<bool>();
    }
    report.finish()
}
