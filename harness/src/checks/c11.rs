//! C11 Verdict is independent of how the document is represented.

use std::collections::{HashMap, HashSet};

use proptest::prelude::*;
use serde_json::{json, Value as J};
use tau_engine::{AsValue, Document, Object, Rule};

use crate::checks::c10::{sorted, value_to_docval};
use crate::common::*;
use crate::engine::{self, guarded, Load};
use crate::gen;
use crate::model::{DArr, DObj, DocVal};
use crate::spec::RuleSpec;

pub const ID: &str = "C11";

fn same_loose(a: &DocVal, b: &DocVal) -> bool {
    match (a, b) {
        (DocVal::Float(x), DocVal::Float(y)) => x.to_bits() == y.to_bits() || (x.is_nan() && y.is_nan()),
        (DocVal::Arr(x), DocVal::Arr(y)) => x.0.len() == y.0.len() && x.0.iter().zip(&y.0).all(|(p, q)| same_loose(p, q)),
        (DocVal::Obj(x), DocVal::Obj(y)) => {
            x.0.len() == y.0.len() && x.0.iter().zip(&y.0).all(|((k, p), (l, q))| k == l && same_loose(p, q))
        }
        _ => a == b,
    }
}

fn paths_of(d: &DObj) -> Vec<String> {
    // every key path of the document (objects only) plus index forms for arrays
    fn rec(prefix: &str, v: &DocVal, out: &mut Vec<String>, depth: u32) {
        if depth > 3 {
            return;
        }
        match v {
            DocVal::Obj(o) => {
                for (k, x) in &o.0 {
                    if k.contains('.') || k.contains('[') || k.is_empty() {
                        continue;
                    }
                    let p = if prefix.is_empty() { k.clone() } else { format!("{prefix}.{k}") };
                    out.push(p.clone());
                    rec(&p, x, out, depth + 1);
                }
            }
            DocVal::Arr(a) => {
                for i in 0..a.0.len().min(3) {
                    let p = format!("{prefix}[{i}]");
                    out.push(p.clone());
                    rec(&p, &a.0[i], out, depth + 1);
                }
                out.push(format!("{prefix}[{}]", a.0.len()));
            }
            _ => {}
        }
    }
    let mut out = vec![];
    rec("", &DocVal::Obj(d.clone()), &mut out, 0);
    out.push("nosuch".into());
    out.push("nosuch.x".into());
    out
}

/// kind c11.render: one rule, documents; every rendering must give the verdict (and the find()
/// results) of the hand-written Object implementation.
fn judge_render(case: &Case) -> Outcome {
    let rule = match engine::load_text(&case.rules[0]) {
        Load::Ok(r) => r,
        Load::Rejected(_) => return Outcome::Skip("rule does not load".into()),
        Load::Panicked(p) => return Outcome::Violation(format!("loader panicked: {p}")),
    };
    let opt = match engine::optimise(&rule, engine::Switches::default_on()) {
        Ok(o) => o,
        Err(p) => return Outcome::Violation(format!("optimise panicked: {p}")),
    };
    let mut evals = 0;
    let mut labels = vec![];
    let mut saw = [false, false];
    let mut kinds: HashSet<&'static str> = HashSet::new();
    for (i, raw) in case.docs.iter().enumerate() {
        let doc = raw.normalised();
        for (_, v) in &doc.0 {
            kinds.insert(v.kind());
        }
        for (which, r) in [("unoptimised", &rule), ("optimised", &opt)] {
            let base = match engine::matches(r, &doc) {
                Ok(b) => b,
                Err(p) => return Outcome::Violation(format!("matches panicked: {p}")),
            };
            saw[base as usize] = true;
            let yaml = doc.to_yaml_mapping();
            let yaml_text: Option<serde_yaml::Mapping> = serde_yaml::to_string(&serde_yaml::Value::Mapping(yaml.clone()))
                .ok()
                .and_then(|t| serde_yaml::from_str::<serde_yaml::Value>(&t).ok())
                .and_then(|v| v.as_mapping().cloned());
            let json = doc.to_json_value();
            let json_text: Option<J> = json.as_ref().and_then(|j| serde_json::from_str(&j.to_string()).ok());
            let hm_json = doc.to_hashmap_json();
            let hm_yaml = doc.to_hashmap_yaml();
            let hm_model = doc.to_hashmap_docval();
            // the same numbers held in signed integers (what an i64 field or a hand-written Document
            // returns) instead of unsigned ones (what YAML / JSON give for non-negative numbers)
            fn signed(v: &DocVal) -> DocVal {
                match v {
                    DocVal::UInt(u) if *u <= i64::MAX as u64 => DocVal::Int(*u as i64),
                    DocVal::Arr(a) => DocVal::Arr(DArr(a.0.iter().map(signed).collect())),
                    DocVal::Obj(o) => DocVal::Obj(DObj(o.0.iter().map(|(k, x)| (k.clone(), signed(x))).collect())),
                    other => other.clone(),
                }
            }
            let twin = match signed(&DocVal::Obj(doc.clone())) {
                DocVal::Obj(o) => o,
                _ => unreachable!(),
            };
            // YAML nodes may carry tags (`!t [a, b]`); a tag does not change the data
            fn tagged(v: &serde_yaml::Value, depth: usize) -> serde_yaml::Value {
                use serde_yaml::Value as Y;
                let inner = match v {
                    Y::Mapping(m) => Y::Mapping(m.iter().map(|(k, x)| (k.clone(), tagged(x, depth + 1))).collect()),
                    Y::Sequence(s) => Y::Sequence(s.iter().map(|x| tagged(x, depth + 1)).collect()),
                    other => other.clone(),
                };
                if depth == 0 {
                    inner
                } else {
                    Y::Tagged(Box::new(serde_yaml::value::TaggedValue { tag: serde_yaml::value::Tag::new("t"), value: inner }))
                }
            }
            let yaml_tagged = match tagged(&serde_yaml::Value::Mapping(yaml.clone()), 0) {
                serde_yaml::Value::Mapping(m) => m,
                _ => unreachable!(),
            };
            let mut renderings: Vec<(&str, Result<bool, String>)> = vec![
                ("the hand-written Object holding signed integers", engine::matches(r, &twin)),
                ("serde_yaml::Mapping whose nested nodes carry tags", engine::matches(r, &yaml_tagged)),
                ("serde_yaml::Mapping", engine::matches(r, &yaml)),
                ("HashMap<String, serde_yaml::Value>", engine::matches(r, &hm_yaml)),
                ("HashMap<String, model value>", engine::matches(r, &hm_model)),
            ];
            if let Some(y) = &yaml_text {
                // YAML text cannot distinguish 1.0 from 1: only compare when the re-read mapping
                // carries the same values
                if same_loose(&sorted(&value_to_docval(&y.as_value())), &sorted(&DocVal::Obj(doc.clone()))) {
                    renderings.push(("serde_yaml::Mapping re-read from text", engine::matches(r, y)));
                } else {
                    labels.push("yaml_text_changes_kinds_skipped");
                }
            }
            if let Some(j) = &json {
                renderings.push(("serde_json::Value", engine::matches(r, j)));
            }
            if let Some(j) = &json_text {
                if let Some(o) = j.as_object() {
                    if same_loose(&sorted(&value_to_docval(&o.as_value())), &sorted(&DocVal::Obj(doc.clone()))) {
                        renderings.push(("serde_json::Value re-read from text", engine::matches(r, j)));
                        renderings.push(("serde_json::Map", engine::matches(r, o)));
                    }
                }
            }
            if let Some(h) = &hm_json {
                renderings.push(("HashMap<String, serde_json::Value>", engine::matches(r, h)));
            }
            for (name, res) in renderings {
                evals += 1;
                match res {
                    Ok(b) if b == base => {}
                    Ok(b) => {
                        return Outcome::Violation(format!(
                            "doc #{i} {}: {which} rule matches={base} on the hand-written Object but {b} on {name}",
                            doc.show()
                        ))
                    }
                    Err(p) => return Outcome::Violation(format!("matches on {name} panicked: {p}")),
                }
            }
        }
        // find() agreement on every path of the document
        let yaml = doc.to_yaml_mapping();
        let json = doc.to_json_value();
        let mut all_paths = paths_of(&doc);
        // an all-digit segment is a name, not an index, in every representation
        for p in all_paths.clone().iter().take(12) {
            all_paths.push(format!("{p}.0"));
            all_paths.push(format!("{p}.1"));
        }
        for p in all_paths {
            let base = Object::find(&doc, &p).map(|v| sorted(&value_to_docval(&v)));
            let y = Object::find(&yaml, &p).map(|v| sorted(&value_to_docval(&v)));
            evals += 1;
            let eq = |a: &Option<DocVal>, b: &Option<DocVal>| match (a, b) {
                (None, None) => true,
                (Some(x), Some(y)) => same_loose(x, y),
                _ => false,
            };
            if !eq(&base, &y) {
                return Outcome::Violation(format!(
                    "find({p:?}) differs between the hand-written Object and serde_yaml::Mapping for {}",
                    doc.show()
                ));
            }
            if let Some(j) = &json {
                let jv = Document::find(j, &p).map(|v| sorted(&value_to_docval(&v)));
                if !eq(&base, &jv) {
                    return Outcome::Violation(format!(
                        "find({p:?}) differs between the hand-written Object and serde_json::Value for {}",
                        doc.show()
                    ));
                }
            }
        }
    }
    if raw_has_json_excluded(&case.docs) {
        labels.push("doc_with_nonfinite_float_json_skipped");
    }
    Outcome::Pass {
        nontrivial: if kinds.len() >= 2 && saw[0] && saw[1] { Some(hash_str(&case.rules[0])) } else { None },
        evaluations: evals,
        labels,
    }
}

fn raw_has_json_excluded(docs: &[DObj]) -> bool {
    docs.iter().any(|d| d.has_nonfinite())
}

// ---------------------------------------------------------------------------------------------
// Typed std documents
// ---------------------------------------------------------------------------------------------

fn check_typed<V: AsValue>(
    map: HashMap<String, V>,
    expected: &DObj,
    rules: &[(String, Rule)],
    ty: &str,
) -> Result<u64, String> {
    let mut evals = 0;
    for (k, _) in &expected.0 {
        let got = guarded(|| Object::find(&map, k).map(|v| sorted(&value_to_docval(&v)))).map_err(|p| format!("find panicked: {p}"))?;
        let exp = expected.get_val(k).map(sorted);
        let ok = match (&got, &exp) {
            (Some(DocVal::Arr(a)), Some(DocVal::Arr(b))) if ty.starts_with("set_") => {
                // sets have no order
                let mut x: Vec<String> = a.0.iter().map(|v| v.show()).collect();
                let mut y: Vec<String> = b.0.iter().map(|v| v.show()).collect();
                x.sort();
                y.sort();
                x == y
            }
            (Some(a), Some(b)) => same_loose(a, b),
            (None, None) => true,
            _ => false,
        };
        evals += 1;
        if !ok {
            return Err(format!(
                "HashMap<String, {ty}>: field {k} is presented as {} but its value is {}",
                got.map(|g| g.show()).unwrap_or("nothing".into()),
                exp.map(|g| g.show()).unwrap_or("nothing".into())
            ));
        }
    }
    for (text, rule) in rules {
        let a = engine::matches(rule, &map).map_err(|p| format!("matches panicked: {p}"))?;
        let b = engine::matches(rule, expected).map_err(|p| format!("matches panicked: {p}"))?;
        evals += 1;
        if a != b {
            return Err(format!(
                "rule [{}] matches={a} on HashMap<String, {ty}> but {b} on the same data {} as a hand-written Object",
                text.lines().filter(|l| l.contains("k:") || l.contains("k)")).collect::<Vec<_>>().join(" "),
                expected.show()
            ));
        }
        // the same numbers in the other signedness (an i64 field and a u64 field holding 5 are the
        // same data)
        fn other_sign(v: &DocVal) -> DocVal {
            match v {
                DocVal::UInt(u) if *u <= i64::MAX as u64 => DocVal::Int(*u as i64),
                DocVal::Int(i) if *i >= 0 => DocVal::UInt(*i as u64),
                DocVal::Arr(a) => DocVal::Arr(DArr(a.0.iter().map(other_sign).collect())),
                DocVal::Obj(o) => DocVal::Obj(DObj(o.0.iter().map(|(k, x)| (k.clone(), other_sign(x))).collect())),
                other => other.clone(),
            }
        }
        if let DocVal::Obj(twin) = other_sign(&DocVal::Obj(expected.clone())) {
            if twin != *expected {
                let c = engine::matches(rule, &twin).map_err(|p| format!("matches panicked: {p}"))?;
                evals += 1;
                if c != a {
                    return Err(format!(
                        "rule [{}] matches={a} on HashMap<String, {ty}> holding {} but {c} when the same numbers are held with the other signedness ({})",
                        text.lines().filter(|l| l.contains("k:") || l.contains("k)")).collect::<Vec<_>>().join(" "),
                        expected.show(),
                        twin.show()
                    ));
                }
            }
        }
    }
    Ok(evals)
}

fn num_i(v: &J) -> i64 {
    v.as_i64().unwrap_or(0)
}
fn num_u(v: &J) -> u64 {
    v.as_u64().unwrap_or(0)
}
fn num_f(v: &J) -> f64 {
    match v.as_str() {
        Some("NaN") => f64::NAN,
        Some("inf") => f64::INFINITY,
        Some("-inf") => f64::NEG_INFINITY,
        Some(s) => s.parse().unwrap_or(0.0),
        None => v.as_f64().unwrap_or(0.0),
    }
}

/// kind c11.typed: extra = {ty, fields: {k: value}}; texts = rule texts.
fn judge_typed(case: &Case) -> Outcome {
    let ty = case.extra["ty"].as_str().unwrap_or("").to_string();
    let fields = match case.extra["fields"].as_object() {
        Some(f) => f.clone(),
        None => return Outcome::Skip("no fields".into()),
    };
    let mut rules = vec![];
    for t in &case.rules {
        match engine::load_text(t) {
            Load::Ok(r) => rules.push((t.clone(), r)),
            Load::Rejected(_) => {}
            Load::Panicked(p) => return Outcome::Violation(format!("loader panicked: {p}")),
        }
    }
    macro_rules! typed {
        ($conv:expr, $exp:expr) => {{
            let mut map = HashMap::new();
            let mut expected = DObj::default();
            for (k, v) in &fields {
                let tv = $conv(v);
                expected.set(k, $exp(&tv));
                map.insert(k.clone(), tv);
            }
            check_typed(map, &expected, &rules, &ty)
        }};
    }
    let arr = |v: &J| -> Vec<J> { v.as_array().cloned().unwrap_or_default() };
    let res: Result<u64, String> = match ty.as_str() {
        "i8" => typed!(|v: &J| num_i(v) as i8, |t: &i8| DocVal::Int(*t as i64)),
        "i16" => typed!(|v: &J| num_i(v) as i16, |t: &i16| DocVal::Int(*t as i64)),
        "i32" => typed!(|v: &J| num_i(v) as i32, |t: &i32| DocVal::Int(*t as i64)),
        "i64" => typed!(|v: &J| num_i(v), |t: &i64| DocVal::Int(*t)),
        "isize" => typed!(|v: &J| num_i(v) as isize, |t: &isize| DocVal::Int(*t as i64)),
        "u8" => typed!(|v: &J| num_u(v) as u8, |t: &u8| DocVal::UInt(*t as u64)),
        "u16" => typed!(|v: &J| num_u(v) as u16, |t: &u16| DocVal::UInt(*t as u64)),
        "u32" => typed!(|v: &J| num_u(v) as u32, |t: &u32| DocVal::UInt(*t as u64)),
        "u64" => typed!(|v: &J| num_u(v), |t: &u64| DocVal::UInt(*t)),
        "usize" => typed!(|v: &J| num_u(v) as usize, |t: &usize| DocVal::UInt(*t as u64)),
        "f32" => typed!(|v: &J| num_f(v) as f32, |t: &f32| DocVal::Float(*t as f64)),
        "f64" => typed!(|v: &J| num_f(v), |t: &f64| DocVal::Float(*t)),
        "bool" => typed!(|v: &J| v.as_bool().unwrap_or(false), |t: &bool| DocVal::Bool(*t)),
        "string" => typed!(|v: &J| v.as_str().unwrap_or("").to_string(), |t: &String| DocVal::Str(t.clone())),
        "unit" => typed!(|_v: &J| (), |_t: &()| DocVal::Null),
        "opt_i32" => typed!(
            |v: &J| if v.is_null() { None } else { Some(num_i(v) as i32) },
            |t: &Option<i32>| t.map(|x| DocVal::Int(x as i64)).unwrap_or(DocVal::Null)
        ),
        "opt_u64" => typed!(
            |v: &J| if v.is_null() { None } else { Some(num_u(v)) },
            |t: &Option<u64>| t.map(DocVal::UInt).unwrap_or(DocVal::Null)
        ),
        "opt_string" => typed!(
            |v: &J| v.as_str().map(|s| s.to_string()),
            |t: &Option<String>| t.clone().map(DocVal::Str).unwrap_or(DocVal::Null)
        ),
        "opt_opt_bool" => typed!(
            |v: &J| if v.is_null() { None } else { Some(v.as_bool()) },
            |t: &Option<Option<bool>>| match t {
                Some(Some(b)) => DocVal::Bool(*b),
                _ => DocVal::Null,
            }
        ),
        "vec_i64" => typed!(
            |v: &J| arr(v).iter().map(num_i).collect::<Vec<i64>>(),
            |t: &Vec<i64>| DocVal::Arr(DArr(t.iter().map(|x| DocVal::Int(*x)).collect()))
        ),
        "vec_u8" => typed!(
            |v: &J| arr(v).iter().map(|x| num_u(x) as u8).collect::<Vec<u8>>(),
            |t: &Vec<u8>| DocVal::Arr(DArr(t.iter().map(|x| DocVal::UInt(*x as u64)).collect()))
        ),
        "vec_f32" => typed!(
            |v: &J| arr(v).iter().map(|x| num_f(x) as f32).collect::<Vec<f32>>(),
            |t: &Vec<f32>| DocVal::Arr(DArr(t.iter().map(|x| DocVal::Float(*x as f64)).collect()))
        ),
        "vec_string" => typed!(
            |v: &J| arr(v).iter().map(|x| x.as_str().unwrap_or("").to_string()).collect::<Vec<String>>(),
            |t: &Vec<String>| DocVal::Arr(DArr(t.iter().map(|x| DocVal::Str(x.clone())).collect()))
        ),
        "vec_opt_i16" => typed!(
            |v: &J| arr(v).iter().map(|x| if x.is_null() { None } else { Some(num_i(x) as i16) }).collect::<Vec<Option<i16>>>(),
            |t: &Vec<Option<i16>>| DocVal::Arr(DArr(t.iter().map(|x| x.map(|y| DocVal::Int(y as i64)).unwrap_or(DocVal::Null)).collect()))
        ),
        "vec_vec_u16" => typed!(
            |v: &J| arr(v).iter().map(|x| arr(x).iter().map(|y| num_u(y) as u16).collect::<Vec<u16>>()).collect::<Vec<Vec<u16>>>(),
            |t: &Vec<Vec<u16>>| DocVal::Arr(DArr(
                t.iter().map(|x| DocVal::Arr(DArr(x.iter().map(|y| DocVal::UInt(*y as u64)).collect()))).collect()
            ))
        ),
        "set_i16" => typed!(
            |v: &J| arr(v).iter().map(|x| num_i(x) as i16).collect::<HashSet<i16>>(),
            |t: &HashSet<i16>| {
                let mut v: Vec<i16> = t.iter().cloned().collect();
                v.sort();
                DocVal::Arr(DArr(v.iter().map(|x| DocVal::Int(*x as i64)).collect()))
            }
        ),
        "set_string" => typed!(
            |v: &J| arr(v).iter().map(|x| x.as_str().unwrap_or("").to_string()).collect::<HashSet<String>>(),
            |t: &HashSet<String>| {
                let mut v: Vec<String> = t.iter().cloned().collect();
                v.sort();
                DocVal::Arr(DArr(v.iter().map(|x| DocVal::Str(x.clone())).collect()))
            }
        ),
        "map_string_i32" => typed!(
            |v: &J| v.as_object().map(|o| o.iter().map(|(k, x)| (k.clone(), num_i(x) as i32)).collect::<HashMap<String, i32>>()).unwrap_or_default(),
            |t: &HashMap<String, i32>| {
                let mut es: Vec<(String, DocVal)> = t.iter().map(|(k, x)| (k.clone(), DocVal::Int(*x as i64))).collect();
                es.sort_by(|a, b| a.0.cmp(&b.0));
                DocVal::Obj(DObj(es))
            }
        ),
        _ => return Outcome::Skip(format!("unknown type {ty}")),
    };
    match res {
        Ok(evals) => Outcome::Pass {
            nontrivial: Some(hash_str(&format!("{ty}|{}", case.extra["fields"]))),
            evaluations: evals,
            labels: vec![],
        },
        Err(m) => Outcome::Violation(m),
    }
}

pub fn judge(case: &Case) -> Outcome {
    match case.kind.as_str() {
        "c11.render" => judge_render(case),
        "c11.typed" => judge_typed(case),
        _ => Outcome::Skip("unknown kind".into()),
    }
}

const TYPES: &[&str] = &[
    "i8", "i16", "i32", "i64", "isize", "u8", "u16", "u32", "u64", "usize", "f32", "f64", "bool", "string", "unit",
    "opt_i32", "opt_u64", "opt_string", "opt_opt_bool", "vec_i64", "vec_u8", "vec_f32", "vec_string", "vec_opt_i16",
    "vec_vec_u16", "set_i16", "set_string", "map_string_i32",
];

fn typed_value(ty: &'static str) -> BoxedStrategy<J> {
    let int_edges = |lo: i64, hi: i64| {
        prop_oneof![
            3 => prop::sample::select(vec![lo, lo + 1, (-1i64).max(lo), 0i64.max(lo), 1, 2, 5, hi - 1, hi]),
            2 => lo..=hi,
        ]
        .prop_map(|i| json!(i))
        .boxed()
    };
    let uint_edges = |hi: u64| {
        prop_oneof![3 => prop::sample::select(vec![0u64, 1, 2, 5, 127, 128, 255, hi / 2, hi / 2 + 1, hi - 1, hi]).prop_map(move |x| x.min(hi)), 2 => 0..=hi]
            .prop_map(|i| json!(i))
            .boxed()
    };
    let float = || {
        prop_oneof![
            3 => prop::sample::select(vec!["0.0", "-0.0", "0.5", "1.0", "1.5", "2.0", "-2.5", "0.1", "16777217.0", "3.4028235e38", "1e39", "NaN", "inf", "-inf", "5.0"]).prop_map(|s| json!(s)),
            1 => any::<f32>().prop_map(|f| json!(format!("{:?}", f))),
        ]
        .boxed()
    };
    let string = || gen::hay().prop_map(|s| json!(s)).boxed();
    match ty {
        "i8" => int_edges(i8::MIN as i64, i8::MAX as i64),
        "i16" | "set_i16" | "vec_opt_i16" => {
            let base = int_edges(i16::MIN as i64, i16::MAX as i64);
            match ty {
                "i16" => base,
                "set_i16" => prop::collection::vec(base, 0..=4).prop_map(J::Array).boxed(),
                _ => prop::collection::vec(prop_oneof![3 => base, 1 => Just(J::Null)], 0..=4).prop_map(J::Array).boxed(),
            }
        }
        "i32" => int_edges(i32::MIN as i64, i32::MAX as i64),
        "opt_i32" => prop_oneof![3 => int_edges(i32::MIN as i64, i32::MAX as i64), 1 => Just(J::Null)].boxed(),
        "i64" | "isize" => int_edges(i64::MIN, i64::MAX),
        "vec_i64" => prop::collection::vec(int_edges(i64::MIN, i64::MAX), 0..=4).prop_map(J::Array).boxed(),
        "u8" => uint_edges(u8::MAX as u64),
        "vec_u8" => prop::collection::vec(uint_edges(u8::MAX as u64), 0..=4).prop_map(J::Array).boxed(),
        "u16" => uint_edges(u16::MAX as u64),
        "vec_vec_u16" => prop::collection::vec(prop::collection::vec(uint_edges(u16::MAX as u64), 0..=3).prop_map(J::Array), 0..=3).prop_map(J::Array).boxed(),
        "u32" => uint_edges(u32::MAX as u64),
        "u64" | "usize" => uint_edges(u64::MAX),
        "opt_u64" => prop_oneof![3 => uint_edges(u64::MAX), 1 => Just(J::Null)].boxed(),
        "f32" | "f64" => float(),
        "vec_f32" => prop::collection::vec(float(), 0..=4).prop_map(J::Array).boxed(),
        "bool" => any::<bool>().prop_map(|b| json!(b)).boxed(),
        "opt_opt_bool" => prop_oneof![any::<bool>().prop_map(|b| json!(b)), Just(J::Null)].boxed(),
        "string" => string(),
        "opt_string" => prop_oneof![3 => string(), 1 => Just(J::Null)].boxed(),
        "vec_string" | "set_string" => prop::collection::vec(string(), 0..=4).prop_map(J::Array).boxed(),
        "unit" => Just(J::Null).boxed(),
        "map_string_i32" => prop::collection::vec((prop::sample::select(vec!["x", "y", "n"]), int_edges(i32::MIN as i64, i32::MAX as i64)), 0..=3)
            .prop_map(|kvs| {
                let mut m = serde_json::Map::new();
                for (k, v) in kvs {
                    m.insert(k.to_string(), v);
                }
                J::Object(m)
            })
            .boxed(),
        _ => Just(J::Null).boxed(),
    }
}

/// Rules over field k that discriminate numeric value, signedness, kind and string content.
fn typed_rules(values: &[J]) -> Vec<String> {
    let mut bodies: Vec<String> = vec![
        "k: '>=0'".into(),
        "k: '<0'".into(),
        "k: '>127'".into(),
        "k: '>=0.5'".into(),
        "k: '<1.5'".into(),
        "k: 1".into(),
        "k: 5".into(),
        "k: 0.5".into(),
        "k: true".into(),
        "k: null".into(),
        "k: '*a*'".into(),
        "k: 'iA*'".into(),
        "k: '*'".into(),
        "int(k): '>1'".into(),
        "int(k): 1".into(),
        "flt(k): '>=1.0'".into(),
        "str(k): '*5*'".into(),
        "str(k): '-*'".into(),
        "str(k): 'true'".into(),
        "k:\n      x: '>0'".into(),
        "not(k): '>=0'".into(),
        "k: '>9223372036854775806'".into(),
        "k: '>=-9223372036854775808'".into(),
    ];
    // equality with the generated values themselves
    for v in values.iter().take(3) {
        match v {
            J::Number(n) => {
                if n.is_i64() || (n.is_u64() && n.as_u64().unwrap() <= i64::MAX as u64) {
                    bodies.push(format!("k: {n}"));
                    bodies.push(format!("str(k): '{n}'"));
                }
            }
            J::String(s) if s.parse::<f64>().is_ok() && s.contains('.') && !s.contains('e') => {
                bodies.push(format!("k: '={s}'"));
                bodies.push(format!("flt(k): '={s}'"));
            }
            _ => {}
        }
    }
    let mut out: Vec<String> = bodies
        .iter()
        .map(|b| format!("detection:\n  A:\n    {b}\n  condition: A\ntrue_positives: []\ntrue_negatives: []\n"))
        .collect();
    // the same predicates counted by the condition, negated, and case-insensitive under a cast
    for b in ["str(k): 'i*5*'", "str(k): 'i1*'", "str(k): 'i-*'", "str(k): 'iTRUE'", "k: 'i*A*'", "int(k): '>=1'"] {
        for cond in ["of(A, 1)", "all(A)", "not A", "of(A, 0)", "not of(A, 1)"] {
            out.push(format!("detection:\n  A:\n    {b}\n  condition: {cond}\ntrue_positives: []\ntrue_negatives: []\n"));
        }
    }
    out
}

pub fn run(tier: &str, seed: u64) -> i32 {
    let mut report = Report::new(ID, tier, seed);
    report.rule = "(a) grammar-G rules x 6 recipe documents (all scalar kinds incl. 64-bit extremes and non-finite floats, \
        nested objects, arrays): the verdict of the unoptimised and the default-optimised rule, and find() on every \
        path of the document, must be the same for the hand-written Object, serde_yaml::Mapping (built and re-read \
        from text), HashMap<String, serde_yaml::Value>, HashMap<String, hand-written value>, serde_json::Value \
        (built and re-read from text), serde_json::Map and HashMap<String, serde_json::Value> (JSON only for finite \
        floats). (b) typed documents HashMap<String, T> for 28 std types T (all integer widths, f32/f64, bool, \
        String, (), Option, nested Option, Vec, Vec<Vec>, Vec<Option>, HashSet, HashMap) with boundary-biased values: \
        find() must present the value kind with the same numeric value and signedness, and ~25 discriminating rules \
        must give the verdict they give on the same data as a hand-written Object; in (a) and (b) the same numbers held \
        with the other signedness (Int 5 for UInt 5 and back) must give that verdict too. Non-trivial: (a) document with >= \
        2 value kinds and both verdicts over the documents, distinct by rule; (b) every typed document, distinct by \
        (type, values)."
        .into();
    report.assumptions = vec![
        "non-negative integers are unsigned in YAML/JSON, so the comparison base is the document with non-negative Int normalised to UInt".into(),
    ];
    let findings = load_findings();
    replay_findings(&mut report, &findings, &judge);
    let n = if tier == "thorough" { 200_000 } else { 6_000 };
    gen::drive(
        &mut report,
        50,
        n,
        || (gen::rule(gen::RuleOpts::default()), prop::collection::vec(gen::doc_recipe(), 6)),
        |(rule, recipes): &(RuleSpec, Vec<gen::DocRecipe>)| {
            if !rule.well_formed() {
                return vec![];
            }
            let mut c = Case::new("c11.render");
            c.rules = vec![rule.text()];
            let mut docs: Vec<DObj> = recipes.iter().map(|r| gen::build_doc(rule, r)).collect();
            // top-level keys that are literally spelled like the rule's dotted / indexed paths: a path
            // is resolved by walking, the literal key must not be consulted
            let paths: Vec<String> = crate::spec::collect_leaves(rule)
                .iter()
                .filter(|l| l.prefix.is_empty() && (l.field.contains('.') || l.field.contains('[')))
                .map(|l| l.field.clone())
                .collect();
            if !paths.is_empty() {
                for (i, d) in docs.iter_mut().enumerate().skip(1).step_by(2) {
                    let p = &paths[i % paths.len()];
                    d.0.push((p.clone(), DocVal::s(["a", "b", "A", "5"][i % 4])));
                }
            }
            c.docs = docs;
            vec![c]
        },
        judge,
        |_, rep| rep.label("rendering_case"),
    );
    let n2 = if tier == "thorough" { 300_000 } else { 12_000 };
    gen::drive(
        &mut report,
        51,
        n2,
        || {
            (0..TYPES.len()).prop_flat_map(|ti| {
                let ty = TYPES[ti];
                (Just(ty), prop::collection::vec(typed_value(ty), 1..=3))
            })
        },
        |(ty, values): &(&'static str, Vec<J>)| {
            let mut fields = serde_json::Map::new();
            for (i, v) in values.iter().enumerate() {
                fields.insert(if i == 0 { "k".to_string() } else { format!("k{i}") }, v.clone());
            }
            let mut c = Case::new("c11.typed");
            c.rules = typed_rules(values);
            c.extra = json!({"ty": ty, "fields": fields});
            vec![c]
        },
        judge,
        |(ty, _), rep| rep.label(&format!("typed:{ty}")),
    );
    report.finish()
}
