//! tauverif: property-based checks for tau-engine.
//!
//!   tauverif check <ID> [--tier quick|thorough] [--seed N]
//!   tauverif replay <file>

mod checks;
mod common;
mod engine;
mod gen;
mod model;
mod reference;
mod spec;

use common::{load_case_file, Case, Outcome};

fn usage() -> ! {
    eprintln!("usage: tauverif check <ID> [--tier quick|thorough] [--seed N] | tauverif replay <file>");
    std::process::exit(2);
}

type RunFn = fn(&str, u64) -> i32;
type JudgeFn = fn(&Case) -> Outcome;

/// property id -> (run, judge)
pub const CHECKS: &[(&str, RunFn, JudgeFn)] = &[
    ("C01", checks::c01::run, checks::c01::judge_strict),
    ("C02", checks::c02::run, checks::c02::judge),
    ("C03", checks::c03::run, checks::c03::judge),
    ("C04", checks::c04::run, checks::c04::judge),
    ("C05", checks::c05::run, checks::c05::judge),
    ("C06", checks::c06::run, checks::c06::judge),
    ("C07", checks::c07::run, checks::c07::judge),
    ("C08", checks::c08::run, checks::c08::judge_strict),
    ("C09", checks::c09::run, checks::c09::judge),
    ("C10", checks::c10::run, checks::c10::judge),
    ("C11", checks::c11::run, checks::c11::judge),
    ("C12", checks::c12::run, checks::c12::judge),
    ("C13", checks::c13::run, checks::c13::judge),
    ("C14", checks::c14::run, checks::c14::judge),
    ("C15", checks::c15::run, checks::c15::judge),
    ("C16", checks::c16::run, checks::c16::judge),
    ("C17", checks::c17::run, checks::c17::judge),
];

pub fn judge_for(property: &str) -> Option<JudgeFn> {
    // VERIF_LENIENT=1 (development aid): replay with known-finding attribution on, as the search does
    if std::env::var("VERIF_LENIENT").is_ok() {
        match property {
            "C01" => return Some(checks::c01::judge),
            "C08" => return Some(checks::c08::judge),
            _ => {}
        }
    }
    CHECKS.iter().find(|(id, _, _)| *id == property).map(|(_, _, j)| *j)
}

fn main() {
    engine::install_panic_hook();
    let args: Vec<String> = std::env::args().collect();
    if args.len() < 3 {
        usage();
    }
    match args[1].as_str() {
        "check" => {
            let id = args[2].clone();
            let mut tier = std::env::var("VERIF_TIER").unwrap_or_else(|_| "quick".into());
            let mut seed: u64 = std::env::var("VERIF_SEED").ok().and_then(|s| s.parse().ok()).unwrap_or(0);
            let mut i = 3;
            while i < args.len() {
                match args[i].as_str() {
                    "--tier" => {
                        tier = args.get(i + 1).cloned().unwrap_or_else(|| usage());
                        i += 2;
                    }
                    "--seed" => {
                        seed = args.get(i + 1).and_then(|s| s.parse().ok()).unwrap_or_else(|| usage());
                        i += 2;
                    }
                    _ => usage(),
                }
            }
            if tier != "quick" && tier != "thorough" {
                usage();
            }
            let code = match CHECKS.iter().find(|(i, _, _)| *i == id) {
                Some((_, run, _)) => {
                    // a panic that escapes a check is a defect of the harness, never a verdict
                    match std::panic::catch_unwind(std::panic::AssertUnwindSafe(|| run(&tier, seed))) {
                        Ok(code) => code,
                        Err(_) => {
                            let what = engine::LAST_PANIC_ANYWHERE.lock().ok().and_then(|g| g.clone());
                            eprintln!("HARNESS-ERROR property={id} the check itself panicked: {}", what.unwrap_or_default());
                            2
                        }
                    }
                }
                None => {
                    eprintln!("unknown property {id}");
                    2
                }
            };
            std::process::exit(code);
        }
        "worker" => {
            // child-process mode used by cross-process comparisons
            let seed: u64 = args.get(3).and_then(|s| s.parse().ok()).unwrap_or(0);
            let n: usize = args.get(4).and_then(|s| s.parse().ok()).unwrap_or(0);
            match args[2].as_str() {
                "c12" => checks::c12::worker(seed, n, false),
                "c12rev" => checks::c12::worker(seed, n, true),
                "c12cur" => checks::c12::worker_curated(false),
                "c12currev" => checks::c12::worker_curated(true),
                "c15serve" => checks::c15::serve(),
                _ => usage(),
            }
        }
        "dump" => {
            // development aid: print generated rules of one generator
            let n: usize = args.get(3).and_then(|s| s.parse().ok()).unwrap_or(20);
            let rules = match args[2].as_str() {
                "samefield" => gen::sample_values(1, n, &gen::rule_same_field_focus()),
                "nested" => gen::sample_values(1, n, &gen::rule_nested_focus(true)),
                _ => usage(),
            };
            for r in rules {
                println!("{}\n---", r.text());
            }
        }
        "replay" => {
            let path = std::path::Path::new(&args[2]);
            let (prop, case) = match load_case_file(path) {
                Ok(x) => x,
                Err(e) => {
                    eprintln!("{e}");
                    std::process::exit(2);
                }
            };
            let judge = match judge_for(&prop) {
                Some(j) => j,
                None => {
                    eprintln!("no judge for property {prop}");
                    std::process::exit(2);
                }
            };
            match judge(&case) {
                Outcome::Violation(m) => {
                    println!("{m}");
                    println!("VIOLATION property={} replay={}", prop, path.display());
                    std::process::exit(1);
                }
                other => {
                    println!("replay passes: {other:?}");
                    std::process::exit(0);
                }
            }
        }
        _ => usage(),
    }
}
