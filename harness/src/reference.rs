//! Independent reference interpreter of the tau rule language (DESIGN.md, Appendix A).
//!
//! It works from the YAML *value* of the `detection` block (so from the rule text) and from a
//! `DObj` document. It never looks at the engine's expression tree. Results are sets of admissible
//! three-valued results: where the documentation does not pin a result, more than one is allowed.

use regex::{Regex, RegexBuilder};
use serde_yaml::Value as Y;

use crate::model::{resolve, DObj, DocVal};

pub type RSet = u8;
pub const T: RSet = 1;
pub const F: RSet = 2;
pub const M: RSet = 4;
pub const FM: RSet = F | M;
pub const ALL: RSet = T | F | M;

pub fn show_set(s: RSet) -> String {
    let mut v = vec![];
    if s & T != 0 {
        v.push("T");
    }
    if s & F != 0 {
        v.push("F");
    }
    if s & M != 0 {
        v.push("M");
    }
    format!("{{{}}}", v.join(","))
}

/// Whether a boolean verdict of the engine is admissible for a set of three-valued results.
pub fn verdict_admissible(set: RSet, verdict: bool) -> bool {
    if verdict {
        set & T != 0
    } else {
        set & FM != 0
    }
}

#[derive(Clone, Debug, PartialEq)]
pub enum RefErr {
    /// The reference is certain that the rule is not a valid rule.
    Invalid(String),
    /// The rule uses something outside the modelled domain; nothing is concluded.
    Unsupported(String),
}

fn invalid<X>(s: impl Into<String>) -> Result<X, RefErr> {
    Err(RefErr::Invalid(s.into()))
}
fn unsupported<X>(s: impl Into<String>) -> Result<X, RefErr> {
    Err(RefErr::Unsupported(s.into()))
}

// ---------------------------------------------------------------------------------------------
// Patterns
// ---------------------------------------------------------------------------------------------

#[derive(Clone, Copy, Debug, PartialEq)]
pub enum NumOp {
    Eq,
    Gt,
    Ge,
    Lt,
    Le,
}

#[derive(Clone, Copy, Debug, PartialEq)]
pub enum NumConst {
    I(i64),
    F(f64),
}

#[derive(Clone, Debug)]
pub enum Pat {
    Any,
    Exact(String),
    Prefix(String),
    Suffix(String),
    Contains(String),
    Regex(Regex),
    Num(NumOp, NumConst),
}

#[derive(Clone, Debug)]
pub struct Pattern {
    pub ci: bool,
    pub pat: Pat,
}

impl Pattern {
    pub fn is_string_kind(&self) -> bool {
        !matches!(self.pat, Pat::Num(_, _))
    }
}

/// Parse pattern text (A.3). `ignore_case_build` models the `ignore_case` cargo feature.
pub fn parse_pattern(text: &str, ignore_case_build: bool) -> Result<Pattern, RefErr> {
    let (ci, s) = if ignore_case_build {
        (true, text)
    } else if let Some(rest) = text.strip_prefix('i') {
        (true, rest)
    } else {
        (false, text)
    };
    let pat = if let Some(re) = s.strip_prefix('?') {
        match RegexBuilder::new(re).case_insensitive(ci).build() {
            Ok(r) => Pat::Regex(r),
            Err(e) => return invalid(format!("regex does not compile: {e}")),
        }
    } else if let Some(n) = s.strip_prefix(">=") {
        Pat::Num(NumOp::Ge, parse_num(n)?)
    } else if let Some(n) = s.strip_prefix('>') {
        Pat::Num(NumOp::Gt, parse_num(n)?)
    } else if let Some(n) = s.strip_prefix("<=") {
        Pat::Num(NumOp::Le, parse_num(n)?)
    } else if let Some(n) = s.strip_prefix('<') {
        Pat::Num(NumOp::Lt, parse_num(n)?)
    } else if let Some(n) = s.strip_prefix('=') {
        Pat::Num(NumOp::Eq, parse_num(n)?)
    } else if s == "*" {
        Pat::Any
    } else if s.len() >= 2 && s.starts_with('*') && s.ends_with('*') {
        Pat::Contains(s[1..s.len() - 1].to_string())
    } else if let Some(x) = s.strip_prefix('*') {
        Pat::Suffix(x.to_string())
    } else if let Some(x) = s.strip_suffix('*') {
        Pat::Prefix(x.to_string())
    } else if s.len() >= 2
        && ((s.starts_with('"') && s.ends_with('"')) || (s.starts_with('\'') && s.ends_with('\'')))
    {
        Pat::Exact(s[1..s.len() - 1].to_string())
    } else {
        Pat::Exact(s.to_string())
    };
    Ok(Pattern { ci, pat })
}

fn parse_num(s: &str) -> Result<NumConst, RefErr> {
    if s.contains('.') {
        match s.parse::<f64>() {
            Ok(f) => Ok(NumConst::F(f)),
            Err(_) => invalid(format!("not a float: {s:?}")),
        }
    } else {
        match s.parse::<i64>() {
            Ok(i) => Ok(NumConst::I(i)),
            Err(_) => invalid(format!("not an integer: {s:?}")),
        }
    }
}

fn fold(s: &str) -> String {
    s.to_ascii_lowercase()
}

/// String test (A.4). Only for string-kind patterns.
pub fn test_string(p: &Pattern, hay: &str) -> bool {
    match &p.pat {
        Pat::Any => true,
        Pat::Regex(r) => r.is_match(hay),
        Pat::Num(_, _) => false,
        Pat::Exact(x) | Pat::Prefix(x) | Pat::Suffix(x) | Pat::Contains(x) => {
            let (x, h) = if p.ci { (fold(x), fold(hay)) } else { (x.clone(), hay.to_string()) };
            match &p.pat {
                Pat::Exact(_) => h == x,
                Pat::Prefix(_) => h.starts_with(&x),
                Pat::Suffix(_) => h.ends_with(&x),
                Pat::Contains(_) => h.contains(&x),
                _ => unreachable!(),
            }
        }
    }
}

// ---------------------------------------------------------------------------------------------
// Rule structure
// ---------------------------------------------------------------------------------------------

#[derive(Clone, Debug, PartialEq)]
pub enum KeyMod {
    None,
    All,
    Of(u64),
    Not,
    Int,
    Flt,
    Str,
}

#[derive(Clone, Debug)]
pub enum RVal {
    Pat(Pattern),
    IntC(i128),
    FloatC(f64),
    BoolC(bool),
    Null,
    Block(RBlock),
    List(Vec<RVal>),
}

#[derive(Clone, Debug)]
pub struct REntry {
    pub modifier: KeyMod,
    pub field: String,
    pub val: RVal,
}

#[derive(Clone, Debug)]
pub struct RBlock(pub Vec<REntry>);

#[derive(Clone, Debug)]
pub enum RIdent {
    Map(RBlock),
    Seq(Vec<RBlock>),
}

#[derive(Clone, Debug, PartialEq)]
pub enum CastKind {
    Int,
    Flt,
    Str,
}

#[derive(Clone, Debug, PartialEq)]
pub enum Operand {
    Cast(CastKind, String),
    Int(i64),
    Float(f64),
}

#[derive(Clone, Debug, PartialEq)]
pub enum Cond {
    Ident(String),
    And(Box<Cond>, Box<Cond>),
    Or(Box<Cond>, Box<Cond>),
    Not(Box<Cond>),
    All(String),
    Of(String, u64),
    Cmp(Operand, NumOp, Operand),
}

#[derive(Clone, Debug)]
pub struct RefRule {
    pub idents: Vec<(String, RIdent)>,
    pub cond: Cond,
    pub ignore_case_build: bool,
    /// the rule holds an integer constant outside the signed 64-bit range: rejecting it at load
    /// time is as admissible as giving it its mathematical meaning
    pub loader_may_reject: bool,
}

thread_local! {
    static WIDE_CONSTANT: std::cell::Cell<bool> = const { std::cell::Cell::new(false) };
}

// ---------------------------------------------------------------------------------------------
// Front end: keys
// ---------------------------------------------------------------------------------------------

fn is_ident_start(c: char) -> bool {
    c.is_ascii_alphabetic() || c == '#'
}
fn is_ident_char(c: char) -> bool {
    c.is_alphanumeric() || c == '_' || c == '.' || c == '#' || c == '[' || c == ']'
}
fn is_blank(c: char) -> bool {
    c == ' ' || ('\x09'..='\x0d').contains(&c)
}

/// Field text inside a key: words of identifier characters joined by single blanks. Returns the
/// normalised field (words joined by one space) or Unsupported.
fn parse_field_words(s: &str) -> Result<String, RefErr> {
    let words: Vec<&str> = s.split(is_blank).filter(|w| !w.is_empty()).collect();
    if words.is_empty() {
        return invalid("empty key");
    }
    for (i, w) in words.iter().enumerate() {
        let mut cs = w.chars();
        let first = cs.next().unwrap();
        if !is_ident_start(first) || !cs.all(is_ident_char) {
            return unsupported(format!("key word {w:?} outside the modelled key alphabet"));
        }
        // a keyword followed by a blank would be read as an operator by the engine
        if i + 1 < words.len() && matches!(*w, "and" | "or" | "not") {
            return unsupported("keyword inside a key");
        }
    }
    Ok(words.join(" "))
}

pub fn parse_key(key: &str) -> Result<(KeyMod, String), RefErr> {
    let k = key.trim_matches(is_blank);
    for (name, which) in [
        ("all", 0),
        ("of", 1),
        ("not", 2),
        ("int", 3),
        ("flt", 4),
        ("string", 5),
        ("str", 5),
    ] {
        if let Some(rest) = k.strip_prefix(name) {
            if let Some(rest) = rest.strip_prefix('(') {
                let inner = match rest.strip_suffix(')') {
                    Some(i) => i,
                    None => return unsupported("modifier without closing parenthesis"),
                };
                if inner.contains('(') || inner.contains(')') {
                    return unsupported("parentheses inside a key modifier");
                }
                if which == 1 {
                    let mut parts = inner.splitn(2, ',');
                    let field = parts.next().unwrap_or("");
                    let n = match parts.next() {
                        Some(n) => n.trim_matches(is_blank),
                        None => return invalid("of() without a count"),
                    };
                    if n.is_empty() || !n.bytes().all(|b| b.is_ascii_digit()) {
                        return unsupported("of() count is not a plain non-negative integer");
                    }
                    let n: u64 = match n.parse::<i64>() {
                        Ok(v) => v as u64,
                        Err(_) => return invalid("of() count out of range"),
                    };
                    return Ok((KeyMod::Of(n), parse_field_words(field)?));
                }
                if inner.contains(',') {
                    return unsupported("comma inside a key modifier");
                }
                let field = parse_field_words(inner)?;
                let m = match which {
                    0 => KeyMod::All,
                    2 => KeyMod::Not,
                    3 => KeyMod::Int,
                    4 => KeyMod::Flt,
                    _ => KeyMod::Str,
                };
                return Ok((m, field));
            }
        }
    }
    if k.contains('(') || k.contains(')') || k.contains(',') {
        return unsupported("delimiter inside a plain key");
    }
    Ok((KeyMod::None, parse_field_words(k)?))
}

// ---------------------------------------------------------------------------------------------
// Front end: values and blocks
// ---------------------------------------------------------------------------------------------

fn parse_scalar_value(v: &Y, icb: bool) -> Result<RVal, RefErr> {
    match v {
        Y::Null => Ok(RVal::Null),
        Y::Bool(b) => Ok(RVal::BoolC(*b)),
        Y::Number(n) => {
            if let Some(i) = n.as_i64() {
                Ok(RVal::IntC(i as i128))
            } else if let Some(u) = n.as_u64() {
                // the rule language has signed 64-bit constants: a loader may refuse this one, and
                // if it does not, the constant means the integer that was written
                WIDE_CONSTANT.with(|w| w.set(true));
                Ok(RVal::IntC(u as i128))
            } else if let Some(f) = n.as_f64() {
                Ok(RVal::FloatC(f))
            } else {
                invalid("number")
            }
        }
        Y::String(s) => Ok(RVal::Pat(parse_pattern(s, icb)?)),
        Y::Mapping(m) => Ok(RVal::Block(parse_block(m, icb)?)),
        Y::Sequence(_) => invalid("sequence inside a sequence"),
        Y::Tagged(_) => invalid("tagged value"),
    }
}

#[derive(PartialEq, Clone, Copy)]
enum MemberType {
    Boolean,
    Mapping,
    Number,
    String,
    Untyped,
}

fn member_type(v: &RVal) -> MemberType {
    match v {
        RVal::Pat(p) if p.is_string_kind() => MemberType::String,
        RVal::Pat(_) | RVal::IntC(_) | RVal::FloatC(_) => MemberType::Number,
        RVal::BoolC(_) => MemberType::Boolean,
        RVal::Null => MemberType::Untyped,
        RVal::Block(_) => MemberType::Mapping,
        RVal::List(_) => MemberType::Untyped,
    }
}

/// Is `modifier: value` (value not a list) a combination the loader accepts and the reference
/// models?
fn check_combo(modifier: &KeyMod, v: &RVal) -> Result<(), RefErr> {
    match (modifier, v) {
        (KeyMod::None, _) => Ok(()),
        (KeyMod::All, _) | (KeyMod::Of(_), _) => Ok(()),
        (_, RVal::Block(_)) => invalid("nested mapping under a cast or negation"),
        (KeyMod::Not, _) => Ok(()),
        (KeyMod::Str, RVal::Pat(p)) => {
            if p.is_string_kind() {
                Ok(())
            } else {
                invalid("numeric pattern under str()")
            }
        }
        (KeyMod::Str, RVal::IntC(_) | RVal::FloatC(_) | RVal::BoolC(_)) => Ok(()),
        (KeyMod::Str, RVal::Null) => Ok(()),
        (KeyMod::Int, RVal::Pat(p)) => match p.pat {
            Pat::Num(_, NumConst::I(_)) => Ok(()),
            Pat::Num(_, NumConst::F(_)) => unsupported("int() with a float pattern"),
            _ => invalid("string pattern under int()"),
        },
        (KeyMod::Int, RVal::IntC(_) | RVal::BoolC(_)) => Ok(()),
        (KeyMod::Int, RVal::FloatC(_)) => invalid("float under int()"),
        (KeyMod::Int, RVal::Null) => Ok(()),
        (KeyMod::Flt, RVal::Pat(p)) => match p.pat {
            Pat::Num(_, NumConst::F(_)) => Ok(()),
            _ => unsupported("flt() with a non-float pattern"),
        },
        (KeyMod::Flt, RVal::FloatC(_)) => Ok(()),
        (KeyMod::Flt, RVal::Null) => Ok(()),
        (KeyMod::Flt, _) => unsupported("flt() with a non-float constant"),
        (_, RVal::List(_)) => unreachable!(),
    }
}

pub fn parse_block(m: &serde_yaml::Mapping, icb: bool) -> Result<RBlock, RefErr> {
    let mut entries = vec![];
    for (k, v) in m {
        let key = match k {
            Y::String(s) => s,
            _ => return invalid("mapping key is not a string"),
        };
        let (modifier, field) = parse_key(key)?;
        let val = match v {
            Y::Sequence(seq) => {
                let mut members = vec![];
                for x in seq {
                    members.push(parse_scalar_value(x, icb)?);
                }
                if members.is_empty() {
                    return invalid("empty list");
                }
                for mem in &members {
                    check_combo(&modifier, mem)?;
                }
                // type homogeneity rules of the loader
                let types: Vec<MemberType> = members.iter().map(member_type).collect();
                let has = |t: MemberType| types.iter().any(|x| *x == t);
                match modifier {
                    KeyMod::All | KeyMod::Of(_) => {
                        let n = has(MemberType::Boolean) as u8
                            + has(MemberType::Mapping) as u8
                            + has(MemberType::Number) as u8
                            + has(MemberType::String) as u8;
                        if n > 1 {
                            return invalid("quantified list with members of different types");
                        }
                    }
                    KeyMod::Int => {
                        // booleans under int() count as numbers for the loader
                    }
                    _ => {}
                }
                RVal::List(members)
            }
            other => {
                if matches!(modifier, KeyMod::All | KeyMod::Of(_)) {
                    return invalid("all()/of() on a value that is not a sequence");
                }
                let val = parse_scalar_value(other, icb)?;
                check_combo(&modifier, &val)?;
                val
            }
        };
        entries.push(REntry { modifier, field, val });
    }
    if entries.is_empty() {
        return invalid("empty mapping");
    }
    Ok(RBlock(entries))
}

pub fn parse_ident(v: &Y, icb: bool) -> Result<RIdent, RefErr> {
    match v {
        Y::Mapping(m) => Ok(RIdent::Map(parse_block(m, icb)?)),
        Y::Sequence(s) => {
            if s.is_empty() {
                return invalid("empty sequence");
            }
            let mut blocks = vec![];
            for x in s {
                match x {
                    Y::Mapping(m) => blocks.push(parse_block(m, icb)?),
                    _ => return invalid("sequence of non-mappings"),
                }
            }
            Ok(RIdent::Seq(blocks))
        }
        _ => invalid("identifier is neither a mapping nor a sequence"),
    }
}

// ---------------------------------------------------------------------------------------------
// Front end: condition
// ---------------------------------------------------------------------------------------------

#[derive(Clone, Debug, PartialEq)]
pub enum Tok {
    Ident(String),
    Int(i64),
    Float(f64),
    And,
    Or,
    Not,
    AllOpen,  // `all(`  (the parenthesis is part of the token)
    OfOpen,   // `of(`
    CastOpen(CastKind),
    NotOpen, // `not(`
    Op(NumOp),
    LParen,
    RParen,
    Comma,
}

pub fn tokenise_condition(s: &str) -> Result<Vec<Tok>, RefErr> {
    let cs: Vec<char> = s.chars().collect();
    let mut i = 0;
    let mut out = vec![];
    while i < cs.len() {
        let c = cs[i];
        if is_blank(c) {
            i += 1;
        } else if is_ident_start(c) {
            let start = i;
            while i < cs.len() && is_ident_char(cs[i]) {
                i += 1;
            }
            let word: String = cs[start..i].iter().collect();
            let next = cs.get(i).copied();
            // The engine recognises keywords by prefix at the start of a word, including the
            // delimiter. A word that merely starts with keyword letters is an identifier, except
            // that e.g. `int(`-prefixes are only seen when the whole word is the keyword, because
            // identifier characters do not include '('.
            let tok = match (word.as_str(), next) {
                ("and", Some(' ')) => Tok::And,
                ("or", Some(' ')) => Tok::Or,
                ("not", Some(' ')) => Tok::Not,
                ("all", Some('(')) => {
                    i += 1;
                    Tok::AllOpen
                }
                ("of", Some('(')) => {
                    i += 1;
                    Tok::OfOpen
                }
                ("int", Some('(')) => {
                    i += 1;
                    Tok::CastOpen(CastKind::Int)
                }
                ("flt", Some('(')) => {
                    i += 1;
                    Tok::CastOpen(CastKind::Flt)
                }
                ("str", Some('(')) | ("string", Some('(')) => {
                    i += 1;
                    Tok::CastOpen(CastKind::Str)
                }
                ("not", Some('(')) => {
                    i += 1;
                    Tok::NotOpen
                }
                _ => Tok::Ident(word),
            };
            out.push(tok);
        } else if c == '.' || c == '-' || c.is_ascii_digit() {
            let start = i;
            if c == '-' {
                // a sign belongs to the literal that follows it directly
                i += 1;
            }
            while i < cs.len() && (cs[i].is_numeric() || cs[i] == '.') {
                i += 1;
            }
            let text: String = cs[start..i].iter().collect();
            if text.contains('.') {
                match text.parse::<f64>() {
                    Ok(f) => out.push(Tok::Float(f)),
                    Err(_) => return invalid("bad float literal"),
                }
            } else {
                match text.parse::<i64>() {
                    Ok(v) => out.push(Tok::Int(v)),
                    Err(_) => return invalid("bad integer literal"),
                }
            }
        } else {
            match c {
                '=' => {
                    if cs.get(i + 1) == Some(&'=') {
                        out.push(Tok::Op(NumOp::Eq));
                        i += 2;
                    } else {
                        return invalid("single '='");
                    }
                }
                '<' => {
                    if cs.get(i + 1) == Some(&'=') {
                        out.push(Tok::Op(NumOp::Le));
                        i += 2;
                    } else {
                        out.push(Tok::Op(NumOp::Lt));
                        i += 1;
                    }
                }
                '>' => {
                    if cs.get(i + 1) == Some(&'=') {
                        out.push(Tok::Op(NumOp::Ge));
                        i += 2;
                    } else {
                        out.push(Tok::Op(NumOp::Gt));
                        i += 1;
                    }
                }
                ',' => {
                    out.push(Tok::Comma);
                    i += 1;
                }
                '(' => {
                    out.push(Tok::LParen);
                    i += 1;
                }
                ')' => {
                    out.push(Tok::RParen);
                    i += 1;
                }
                _ => return invalid(format!("unsupported character {c:?}")),
            }
        }
    }
    Ok(out)
}

/// Parse tree before validity checks (used by C05 for structural comparison as well).
#[derive(Clone, Debug, PartialEq)]
pub enum PTree {
    Ident(String),
    Int(i64),
    Float(f64),
    Cast(CastKind, String),
    NotCast(String),
    All(String),
    Of(String, u64),
    Not(Box<PTree>),
    Bin(Box<PTree>, BinOp, Box<PTree>),
}

#[derive(Clone, Copy, Debug, PartialEq)]
pub enum BinOp {
    And,
    Or,
    Cmp(NumOp),
}

fn bp(t: &Tok) -> u8 {
    match t {
        Tok::Op(_) => 90,
        Tok::Or => 80,
        Tok::And => 70,
        Tok::Not => 95,
        _ => 0,
    }
}

struct P<'a> {
    toks: &'a [Tok],
    pos: usize,
}

impl<'a> P<'a> {
    fn peek(&self) -> Option<&'a Tok> {
        self.toks.get(self.pos)
    }
    fn next(&mut self) -> Option<&'a Tok> {
        let t = self.toks.get(self.pos);
        self.pos += 1;
        t
    }
    fn expect_ident(&mut self) -> Result<String, RefErr> {
        match self.next() {
            Some(Tok::Ident(s)) => Ok(s.clone()),
            _ => invalid("expected an identifier"),
        }
    }
    fn expect(&mut self, t: Tok) -> Result<(), RefErr> {
        match self.next() {
            Some(x) if *x == t => Ok(()),
            _ => invalid(format!("expected {t:?}")),
        }
    }

    fn expr(&mut self, rbp: u8) -> Result<PTree, RefErr> {
        let mut left = self.nud()?;
        loop {
            let Some(next) = self.peek() else { break };
            let p = bp(next);
            if p <= rbp {
                break;
            }
            let op = match self.next().unwrap() {
                Tok::And => BinOp::And,
                Tok::Or => BinOp::Or,
                Tok::Op(o) => BinOp::Cmp(*o),
                _ => return invalid("operator expected"),
            };
            let right = self.expr(p)?;
            left = PTree::Bin(Box::new(left), op, Box::new(right));
        }
        Ok(left)
    }

    fn nud(&mut self) -> Result<PTree, RefErr> {
        match self.next() {
            None => invalid("unexpected end of condition"),
            Some(t) => match t {
                Tok::Ident(s) => Ok(PTree::Ident(s.clone())),
                Tok::Int(i) => Ok(PTree::Int(*i)),
                Tok::Float(f) => Ok(PTree::Float(*f)),
                Tok::Not => {
                    let inner = self.expr(95)?;
                    Ok(PTree::Not(Box::new(inner)))
                }
                Tok::LParen => {
                    // find the matching parenthesis
                    let start = self.pos;
                    let mut depth = 1;
                    let mut end = None;
                    let mut j = start;
                    while j < self.toks.len() {
                        match &self.toks[j] {
                            Tok::LParen | Tok::AllOpen | Tok::OfOpen | Tok::CastOpen(_) | Tok::NotOpen => {
                                depth += 1
                            }
                            Tok::RParen => {
                                depth -= 1;
                                if depth == 0 {
                                    end = Some(j);
                                    break;
                                }
                            }
                            _ => {}
                        }
                        j += 1;
                    }
                    let end = match end {
                        Some(e) => e,
                        None => return unsupported("unbalanced parenthesis"),
                    };
                    let mut sub = P { toks: &self.toks[start..end], pos: 0 };
                    let inner = sub.expr(0)?;
                    if sub.pos < sub.toks.len() {
                        return invalid("tokens left over inside parentheses");
                    }
                    self.pos = end + 1;
                    Ok(inner)
                }
                Tok::AllOpen => {
                    let name = self.expect_ident()?;
                    self.expect(Tok::RParen)?;
                    Ok(PTree::All(name))
                }
                Tok::OfOpen => {
                    let name = self.expect_ident()?;
                    self.expect(Tok::Comma)?;
                    let n = match self.next() {
                        Some(Tok::Int(i)) if *i >= 0 => *i as u64,
                        _ => return invalid("of() needs a count"),
                    };
                    self.expect(Tok::RParen)?;
                    Ok(PTree::Of(name, n))
                }
                Tok::CastOpen(k) => {
                    let name = self.expect_ident()?;
                    self.expect(Tok::RParen)?;
                    Ok(PTree::Cast(k.clone(), name))
                }
                Tok::NotOpen => {
                    let name = self.expect_ident()?;
                    self.expect(Tok::RParen)?;
                    Ok(PTree::NotCast(name))
                }
                Tok::And | Tok::Or | Tok::Op(_) | Tok::RParen | Tok::Comma => {
                    invalid("unexpected token at the start of an expression")
                }
            },
        }
    }
}

pub fn parse_condition_tree(s: &str) -> Result<PTree, RefErr> {
    let toks = tokenise_condition(s)?;
    let mut p = P { toks: &toks, pos: 0 };
    let tree = p.expr(0)?;
    if p.pos < toks.len() {
        return invalid("tokens left over");
    }
    Ok(tree)
}

fn is_predicate(t: &PTree) -> bool {
    matches!(
        t,
        PTree::Ident(_) | PTree::All(_) | PTree::Of(_, _) | PTree::Not(_) | PTree::Bin(_, _, _)
    )
}

fn to_operand(t: &PTree) -> Result<Operand, RefErr> {
    match t {
        PTree::Cast(k, f) => Ok(Operand::Cast(k.clone(), f.clone())),
        PTree::Int(i) => Ok(Operand::Int(*i)),
        PTree::Float(f) => Ok(Operand::Float(*f)),
        _ => invalid("comparison operand must be a cast or a literal"),
    }
}

pub fn validate_tree(t: &PTree, idents: &[String]) -> Result<Cond, RefErr> {
    let known = |n: &String| idents.iter().any(|i| i == n);
    match t {
        PTree::Ident(n) => {
            if known(n) {
                Ok(Cond::Ident(n.clone()))
            } else {
                invalid(format!("unknown identifier {n}"))
            }
        }
        PTree::All(n) => {
            if known(n) {
                Ok(Cond::All(n.clone()))
            } else {
                invalid(format!("unknown identifier {n}"))
            }
        }
        PTree::Of(n, c) => {
            if known(n) {
                Ok(Cond::Of(n.clone(), *c))
            } else {
                invalid(format!("unknown identifier {n}"))
            }
        }
        PTree::Int(_) | PTree::Float(_) | PTree::Cast(_, _) | PTree::NotCast(_) => {
            invalid("not a predicate")
        }
        PTree::Not(inner) => {
            if !is_predicate(inner) {
                return invalid("not applied to a non-predicate");
            }
            Ok(Cond::Not(Box::new(validate_tree(inner, idents)?)))
        }
        PTree::Bin(l, BinOp::And, r) | PTree::Bin(l, BinOp::Or, r) => {
            if !is_predicate(l) || !is_predicate(r) {
                return invalid("operand of and/or is not a predicate");
            }
            let a = validate_tree(l, idents)?;
            let b = validate_tree(r, idents)?;
            Ok(match t {
                PTree::Bin(_, BinOp::And, _) => Cond::And(Box::new(a), Box::new(b)),
                _ => Cond::Or(Box::new(a), Box::new(b)),
            })
        }
        PTree::Bin(l, BinOp::Cmp(op), r) => {
            let a = to_operand(l)?;
            let b = to_operand(r)?;
            use CastKind::*;
            let ok = match (&a, &b) {
                (Operand::Cast(Flt, _), Operand::Cast(Flt, _)) => true,
                (Operand::Cast(Int, _), Operand::Cast(Int, _)) => true,
                (Operand::Cast(Str, _), Operand::Cast(Str, _)) => *op == NumOp::Eq,
                (Operand::Cast(Flt, _), Operand::Float(_)) => true,
                (Operand::Float(_), Operand::Cast(Flt, _)) => true,
                (Operand::Cast(Int, _), Operand::Int(_)) => true,
                (Operand::Int(_), Operand::Cast(Int, _)) => true,
                _ => false,
            };
            if !ok {
                return invalid("comparison operands of different types");
            }
            Ok(Cond::Cmp(a, *op, b))
        }
    }
}

// ---------------------------------------------------------------------------------------------
// Front end: whole detection block
// ---------------------------------------------------------------------------------------------

pub fn load_detection(det: &Y, ignore_case_build: bool) -> Result<RefRule, RefErr> {
    let m = match det {
        Y::Mapping(m) => m,
        _ => return invalid("detection is not a mapping"),
    };
    let mut idents = vec![];
    let mut cond_text: Option<String> = None;
    WIDE_CONSTANT.with(|w| w.set(false));
    for (k, v) in m {
        let name = match k {
            Y::String(s) => s.clone(),
            _ => return unsupported("non-string identifier name"),
        };
        if name == "condition" {
            match v {
                Y::String(s) => cond_text = Some(s.clone()),
                _ => return unsupported("condition is not a YAML string"),
            }
        } else {
            if idents.iter().any(|(n, _): &(String, RIdent)| *n == name) {
                return invalid("duplicate identifier");
            }
            idents.push((name, parse_ident(v, ignore_case_build)?));
        }
    }
    let cond_text = match cond_text {
        Some(c) => c,
        None => return invalid("missing condition"),
    };
    let tree = parse_condition_tree(&cond_text)?;
    let names: Vec<String> = idents.iter().map(|(n, _)| n.clone()).collect();
    let cond = validate_tree(&tree, &names)?;
    Ok(RefRule { idents, cond, ignore_case_build, loader_may_reject: WIDE_CONSTANT.with(|w| w.get()) })
}

pub fn load_rule_text(text: &str, ignore_case_build: bool) -> Result<RefRule, RefErr> {
    let v: Y = match serde_yaml::from_str(text) {
        Ok(v) => v,
        Err(e) => return invalid(format!("yaml: {e}")),
    };
    let det = match &v {
        Y::Mapping(m) => match m.get(Y::String("detection".into())) {
            Some(d) => d.clone(),
            None => return invalid("no detection block"),
        },
        _ => return invalid("rule is not a mapping"),
    };
    load_detection(&det, ignore_case_build)
}

// ---------------------------------------------------------------------------------------------
// Back end: evaluation
// ---------------------------------------------------------------------------------------------

/// Evaluation options: `relaxed` widens `and` to "the result of any non-true operand" and lets a
/// double negation cancel; it describes exactly the two known optimiser findings K1/K2 and is only
/// used by C01 to attribute a mismatch.
#[derive(Clone, Copy, Default)]
pub struct EvalOpts {
    pub relaxed: bool,
    /// switch set of the optimised rule whose verdict is being explained (relaxed mode only):
    /// shake moves nested blocks to the end of an and-group and removes double negations; matrix
    /// orders the cells of an and-group that sits directly inside an or-group (and runs shake's
    /// second stage on the entries of a quantified group)
    pub shake: bool,
    pub matrix: bool,
    /// resolve the undocumented zones the way the engine does today (wrong kind under a search:
    /// missing; under a comparison: false; cross-kind numbers: false; int() rounds half away from
    /// zero; which of false / missing a non-true quantifier yields). Only used by C01 to attribute a
    /// mismatch to K1/K2: the question there is what the *unoptimised engine* would give under a
    /// reordering, not what the documentation admits.
    pub engine_exact: bool,
    /// relax every and-group, whatever its shape and place (relaxed mode only). Used by the checks
    /// other than C01 when they compare an optimised rule with the rule as loaded: K2 is C01's to
    /// delimit exactly; elsewhere an envelope that certainly contains it is enough, and it keeps
    /// gaps of the structural model from raising alarms under another property's name
    pub wide: bool,
}

pub struct Evaluator<'a> {
    pub rule: &'a RefRule,
    pub opts: EvalOpts,
    /// number of sub-results that were not judged (widened to ALL)
    pub not_judged: std::cell::Cell<u32>,
    /// why (reason -> count)
    pub reasons: std::cell::RefCell<std::collections::BTreeMap<&'static str, u32>>,
}

fn set_not(s: RSet) -> RSet {
    let mut o = 0;
    if s & T != 0 {
        o |= F;
    }
    if s & F != 0 {
        o |= T;
    }
    if s & M != 0 {
        o |= F;
    }
    o
}

/// `and` over operand sets in written order: first non-true result, else T.
fn set_and(ops: &[RSet], relaxed: bool) -> RSet {
    if relaxed {
        // any non-true operand's result may be the result; T only if every operand can be T
        let mut out = 0;
        let all_can_t = ops.iter().all(|s| s & T != 0);
        if all_can_t {
            out |= T;
        }
        for s in ops {
            out |= s & FM;
        }
        return out;
    }
    let mut out = 0;
    let mut reach = true; // can all previous operands be T
    for s in ops {
        if !reach {
            break;
        }
        out |= s & FM;
        reach = s & T != 0;
    }
    if reach {
        out |= T;
    }
    out
}

/// `or`: T if any T, else F if any F, else M.
fn set_or(ops: &[RSet]) -> RSet {
    // enumerate pointwise; operand count is small but sets are tiny, so do it by reasoning:
    let mut out = 0;
    if ops.iter().any(|s| s & T != 0) {
        out |= T;
    }
    // F possible: no operand forced T, and some operand can be F while the others avoid T
    let none_forced_t = ops.iter().all(|s| s & FM != 0);
    if none_forced_t {
        if ops.iter().any(|s| s & F != 0) {
            out |= F;
        }
        if ops.iter().all(|s| s & M != 0) {
            out |= M;
        }
    }
    out
}

fn enumerate(ops: &[RSet], f: &mut dyn FnMut(&[RSet])) {
    fn rec(ops: &[RSet], i: usize, cur: &mut Vec<RSet>, f: &mut dyn FnMut(&[RSet])) {
        if i == ops.len() {
            f(cur);
            return;
        }
        for b in [T, F, M] {
            if ops[i] & b != 0 {
                cur.push(b);
                rec(ops, i + 1, cur, f);
                cur.pop();
            }
        }
    }
    let mut cur = vec![];
    rec(ops, 0, &mut cur, f);
}

/// Quantifier over member result sets. `definitely_missing[i]` tells whether member i is {M}
/// because the field is absent (as opposed to a wrong-kind choice).
/// How the engine holds the operands of a quantifier: a group it loops over, a single expression,
/// or one batch (automaton / regex set) that counts its own members.
#[derive(Clone, Copy, PartialEq)]
enum QuantShape {
    Group,
    Single,
    Batch,
}

fn set_quant_exact(q: &KeyMod, ops: &[RSet], shape: QuantShape) -> Option<RSet> {
    if !ops.iter().all(|s| s.count_ones() == 1) {
        return None;
    }
    let t = ops.iter().filter(|s| **s == T).count() as u64;
    let f = ops.iter().filter(|s| **s == F).count() as u64;
    let m = ops.iter().filter(|s| **s == M).count() as u64;
    Some(match q {
        KeyMod::All => {
            if t == ops.len() as u64 {
                T
            } else if f > 0 && m > 0 {
                // the first non-true entry in the engine's own entry order decides
                FM
            } else if f > 0 {
                F
            } else {
                M
            }
        }
        KeyMod::Of(0) => {
            if t > 0 {
                F
            } else if f > 0 {
                T
            } else {
                M
            }
        }
        KeyMod::Of(n) => {
            if t >= *n {
                T
            } else if f > 0 {
                F
            } else if t > 0 && shape != QuantShape::Group {
                // true operands that do not reach the count: a single expression or a batch answers
                // false, a group answers with what it saw besides (nothing: missing)
                F
            } else {
                M
            }
        }
        _ => return None,
    })
}

/// Does a key list end up as one batch in the solver (see k3_shape for the grouping)?
fn list_shape(members: &[RVal]) -> QuantShape {
    if members.len() == 1 {
        return QuantShape::Single;
    }
    let mut kinds = std::collections::BTreeSet::new();
    let mut singles = 0;
    for m in members {
        match m {
            RVal::Pat(p) => match &p.pat {
                Pat::Regex(_) => {
                    kinds.insert(if p.ci { "iregex" } else { "regex" });
                }
                Pat::Exact(x) if x.is_empty() => singles += 1,
                Pat::Exact(_) | Pat::Prefix(_) | Pat::Suffix(_) | Pat::Contains(_) => {
                    kinds.insert(if p.ci { "ineedle" } else { "needle" });
                }
                Pat::Any | Pat::Num(_, _) => singles += 1,
            },
            _ => singles += 1,
        }
    }
    if singles == 0 && kinds.len() == 1 {
        QuantShape::Batch
    } else {
        QuantShape::Group
    }
}

fn set_quant(q: &KeyMod, ops: &[RSet]) -> RSet {
    if ops.len() > 8 {
        // avoid 3^n blow-up; decide on bounds
        let min_t = ops.iter().filter(|s| **s == T).count() as u64;
        let max_t = ops.iter().filter(|s| **s & T != 0).count() as u64;
        return match q {
            KeyMod::All => {
                let mut o = 0;
                if max_t == ops.len() as u64 {
                    o |= T;
                }
                if min_t < ops.len() as u64 {
                    o |= FM;
                }
                o
            }
            KeyMod::Of(0) => ALL,
            KeyMod::Of(n) => {
                let mut o = 0;
                if max_t >= *n {
                    o |= T;
                }
                if min_t < *n {
                    o |= FM;
                }
                o
            }
            _ => unreachable!(),
        };
    }
    let mut out = 0;
    let all_def_missing = ops.iter().all(|s| *s == M);
    enumerate(ops, &mut |choice: &[RSet]| {
        let t = choice.iter().filter(|c| **c == T).count() as u64;
        let f = choice.iter().filter(|c| **c == F).count() as u64;
        match q {
            KeyMod::All => {
                if t == choice.len() as u64 {
                    out |= T;
                } else {
                    out |= FM;
                }
            }
            KeyMod::Of(0) => {
                if t > 0 {
                    out |= FM;
                } else if f > 0 {
                    // none matches, at least one definite non-match: is this F a definite one?
                    out |= T;
                } else if all_def_missing {
                    out |= FM;
                } else {
                    out |= ALL;
                }
            }
            KeyMod::Of(n) => {
                if t >= *n {
                    out |= T;
                } else {
                    out |= FM;
                }
            }
            _ => unreachable!(),
        }
    });
    // of(0): a member whose F comes from a {F,M} wrong-kind choice is not a definite non-match
    if let KeyMod::Of(0) = q {
        let has_def_f = ops.iter().any(|s| *s == F);
        let can_t = ops.iter().any(|s| *s & T != 0);
        if !has_def_f && !can_t && !all_def_missing {
            out = ALL;
        }
    }
    out
}

#[derive(Clone, Copy, Debug, PartialEq)]
enum Num {
    I(i128),
    F(f64),
}

fn cmp_exact(a: Num, op: NumOp, b: Num) -> bool {
    use std::cmp::Ordering::*;
    let ord: Option<std::cmp::Ordering> = match (a, b) {
        (Num::I(x), Num::I(y)) => Some(x.cmp(&y)),
        (Num::F(x), Num::F(y)) => x.partial_cmp(&y),
        (Num::I(x), Num::F(y)) => cmp_int_float(x, y),
        (Num::F(x), Num::I(y)) => cmp_int_float(y, x).map(|o| o.reverse()),
    };
    match ord {
        None => false,
        Some(o) => match op {
            NumOp::Eq => o == Equal,
            NumOp::Gt => o == Greater,
            NumOp::Ge => o != Less,
            NumOp::Lt => o == Less,
            NumOp::Le => o != Greater,
        },
    }
}

/// Exact comparison of an integer with a double.
fn cmp_int_float(x: i128, y: f64) -> Option<std::cmp::Ordering> {
    use std::cmp::Ordering::*;
    if y.is_nan() {
        return None;
    }
    if y == f64::INFINITY {
        return Some(Less);
    }
    if y == f64::NEG_INFINITY {
        return Some(Greater);
    }
    // |x| < 2^65 here; compare against floor(y)
    let fl = y.floor();
    if fl >= 1e30 {
        return Some(Less);
    }
    if fl <= -1e30 {
        return Some(Greater);
    }
    let fi = fl as i128; // exact: fl is integral and small enough
    match x.cmp(&fi) {
        Equal => {
            if y > fl {
                Some(Less)
            } else {
                Some(Equal)
            }
        }
        o => Some(o),
    }
}

fn as_num(v: &DocVal) -> Option<Num> {
    match v {
        DocVal::Int(i) => Some(Num::I(*i as i128)),
        DocVal::UInt(u) => Some(Num::I(*u as i128)),
        DocVal::Float(f) => Some(Num::F(*f)),
        _ => None,
    }
}

fn bool_set(b: bool) -> RSet {
    if b {
        T
    } else {
        F
    }
}

/// Conversion result of a cast.
enum Conv {
    Ok(Num),
    /// not convertible: never true
    No,
    /// convertible in the engine but the documented value is not pinned (rounding etc.)
    NotJudged,
    /// out of the signed range: false or the exact answer
    Big(Num),
    /// a non-integral double under int(): the rounding mode is not documented, any integer
    /// between floor and ceil is admissible
    Either(Num, Num),
}

fn conv_int(v: &DocVal) -> Conv {
    match v {
        DocVal::Bool(b) => Conv::Ok(Num::I(*b as i128)),
        DocVal::Int(i) => Conv::Ok(Num::I(*i as i128)),
        DocVal::UInt(u) => {
            if *u <= i64::MAX as u64 {
                Conv::Ok(Num::I(*u as i128))
            } else {
                Conv::Big(Num::I(*u as i128))
            }
        }
        DocVal::Float(f) => {
            // i64 holds -2^63 ..= 2^63-1; 9223372036854775808.0 is 2^63 exactly
            let r = f.round();
            if !f.is_finite() || r < -9223372036854775808.0 || r >= 9223372036854775808.0 {
                Conv::No
            } else if f.fract() == 0.0 {
                Conv::Ok(Num::I(*f as i128))
            } else {
                Conv::Either(Num::I(f.floor() as i128), Num::I(f.ceil() as i128))
            }
        }
        DocVal::Str(s) => match s.parse::<i64>() {
            Ok(i) => Conv::Ok(Num::I(i as i128)),
            Err(_) => Conv::No,
        },
        _ => Conv::No,
    }
}

fn conv_flt(v: &DocVal) -> Conv {
    match v {
        DocVal::Bool(b) => Conv::Ok(Num::F(if *b { 1.0 } else { 0.0 })),
        DocVal::Int(i) => Conv::Ok(Num::F(*i as f64)),
        DocVal::UInt(u) => Conv::Ok(Num::F(*u as f64)),
        DocVal::Float(f) => Conv::Ok(Num::F(*f)),
        DocVal::Str(s) => match s.parse::<f64>() {
            Ok(f) => Conv::Ok(Num::F(f)),
            Err(_) => Conv::No,
        },
        _ => Conv::No,
    }
}

fn conv_str(v: &DocVal) -> Option<String> {
    match v {
        DocVal::Bool(b) => Some(b.to_string()),
        DocVal::Int(i) => Some(i.to_string()),
        DocVal::UInt(u) => Some(u.to_string()),
        DocVal::Float(f) => Some(f.to_string()),
        DocVal::Str(s) => Some(s.clone()),
        _ => None,
    }
}

impl<'a> Evaluator<'a> {
    pub fn new(rule: &'a RefRule, opts: EvalOpts) -> Self {
        Evaluator { rule, opts, not_judged: std::cell::Cell::new(0), reasons: Default::default() }
    }

    fn nj(&self) -> RSet {
        self.njr("other")
    }

    /// An undocumented zone: false-or-missing by the documentation, `engine` in engine_exact mode.
    fn zone(&self, engine: RSet) -> RSet {
        if self.opts.engine_exact {
            engine
        } else {
            FM
        }
    }

    fn njr(&self, why: &'static str) -> RSet {
        self.not_judged.set(self.not_judged.get() + 1);
        *self.reasons.borrow_mut().entry(why).or_insert(0) += 1;
        ALL
    }

    pub fn eval(&self, doc: &DObj) -> RSet {
        self.eval_cond_ctx(&self.rule.cond, doc, false)
    }

    pub fn eval_cond(&self, c: &Cond, doc: &DObj) -> RSet {
        self.eval_cond_ctx(c, doc, false)
    }

    /// May the operands of this and-group have been reordered by the optimiser?
    fn relax_and(&self, has_nested: bool, under_or: bool) -> bool {
        self.opts.relaxed
            && (self.opts.wide
                || (has_nested && (self.opts.shake || self.opts.matrix))
                || (under_or && self.opts.matrix))
    }

    fn block_has_nested(b: &RBlock) -> bool {
        b.0.iter().any(|e| match &e.val {
            RVal::Block(_) => true,
            RVal::List(l) => l.iter().any(|m| matches!(m, RVal::Block(_))),
            _ => false,
        })
    }

    /// Does the flattened and-chain hold an operand that is (or inlines to) a nested block?
    fn chain_has_nested(&self, c: &Cond) -> bool {
        match c {
            Cond::And(a, b) => self.chain_has_nested(a) || self.chain_has_nested(b),
            // an or of nested blocks on one holder is merged into a single nested block by shake,
            // which then moves it to the end of the and-group like any other nested block
            Cond::Or(a, b) => self.chain_has_nested(a) || self.chain_has_nested(b),
            // a double negation that shake removes (K1) leaves its operand in the chain
            Cond::Not(inner) if self.opts.shake => match &**inner {
                Cond::Not(x) => self.chain_has_nested(x),
                _ => false,
            },
            Cond::Ident(n) => match self.ident(n) {
                RIdent::Map(b) => Self::block_has_nested(b),
                // a one-mapping sequence is unwrapped by shake and inlines like a mapping; a
                // sequence of single nested blocks on one holder is merged into one nested block
                RIdent::Seq(bs) => bs.iter().any(Self::block_has_nested),
            },
            _ => false,
        }
    }

    fn ident(&self, name: &str) -> &RIdent {
        &self.rule.idents.iter().find(|(n, _)| n == name).expect("validated").1
    }

    /// If the condition is (through parentheses, which the tree does not keep) a negation, or an
    /// identifier whose body is a single `not(k)` entry, return a closure-free description of the
    /// inner result.
    fn peel_negation(&self, c: &Cond, doc: &DObj) -> Option<RSet> {
        match c {
            Cond::Not(inner) => Some(self.eval_cond(inner, doc)),
            Cond::Ident(n) => {
                let block = match self.ident(n) {
                    RIdent::Map(b) if b.0.len() == 1 => b,
                    RIdent::Seq(bs) if bs.len() == 1 && bs[0].0.len() == 1 => &bs[0],
                    _ => return None,
                };
                let e = &block.0[0];
                if e.modifier == KeyMod::Not {
                    let inner = REntry { modifier: KeyMod::None, field: e.field.clone(), val: e.val.clone() };
                    Some(self.eval_entry(&inner, doc))
                } else {
                    None
                }
            }
            _ => None,
        }
    }

    fn eval_cond_ctx(&self, c: &Cond, doc: &DObj, under_or: bool) -> RSet {
        match c {
            Cond::Ident(n) => self.eval_ident_ctx(self.ident(n), doc, under_or),
            Cond::And(a, b) => {
                // flatten the and-chain so that "any non-true operand" covers regrouping
                // with matrix on, an and-chain directly inside an or becomes one matrix row whose
                // cells - including the entries of the mapping identifiers it names, which
                // coalesce inlines - are ordered by column: those identifiers are relaxed alike
                let inner_under_or = under_or && self.opts.relaxed && self.opts.matrix;
                let mut ops = vec![];
                self.flatten_and(c, doc, &mut ops, inner_under_or);
                let _ = (a, b);
                set_and(&ops, self.relax_and(self.chain_has_nested(c), under_or))
            }
            Cond::Or(_, _) => {
                let mut ops = vec![];
                self.flatten_or(c, doc, &mut ops);
                set_or(&ops)
            }
            Cond::Not(inner) => {
                let r = set_not(self.eval_cond_ctx(inner, doc, false));
                if self.opts.relaxed && self.opts.shake {
                    if let Some(x) = self.peel_negation(inner, doc) {
                        return r | x;
                    }
                }
                r
            }
            Cond::All(n) => self.eval_ident_quant(&KeyMod::All, self.ident(n), doc),
            Cond::Of(n, k) => self.eval_ident_quant(&KeyMod::Of(*k), self.ident(n), doc),
            Cond::Cmp(a, op, b) => self.eval_cmp(a, *op, b, doc),
        }
    }

    fn flatten_and(&self, c: &Cond, doc: &DObj, out: &mut Vec<RSet>, inner_under_or: bool) {
        match c {
            Cond::And(a, b) => {
                self.flatten_and(a, doc, out, inner_under_or);
                self.flatten_and(b, doc, out, inner_under_or);
            }
            Cond::Ident(_) => out.push(self.eval_cond_ctx(c, doc, inner_under_or)),
            other => out.push(self.eval_cond_ctx(other, doc, false)),
        }
    }
    fn flatten_or(&self, c: &Cond, doc: &DObj, out: &mut Vec<RSet>) {
        match c {
            Cond::Or(a, b) => {
                self.flatten_or(a, doc, out);
                self.flatten_or(b, doc, out);
            }
            other => out.push(self.eval_cond_ctx(other, doc, true)),
        }
    }

    pub fn eval_ident(&self, id: &RIdent, doc: &DObj) -> RSet {
        self.eval_ident_ctx(id, doc, false)
    }

    fn eval_ident_ctx(&self, id: &RIdent, doc: &DObj, under_or: bool) -> RSet {
        match id {
            RIdent::Map(b) => self.eval_block_ctx(b, doc, under_or),
            RIdent::Seq(bs) => {
                let ops: Vec<RSet> = bs.iter().map(|b| self.eval_block_ctx(b, doc, true)).collect();
                set_or(&ops)
            }
        }
    }

    fn eval_ident_quant(&self, q: &KeyMod, id: &RIdent, doc: &DObj) -> RSet {
        let ops: Vec<RSet> = match id {
            RIdent::Seq(bs) => bs.iter().map(|b| self.eval_block(b, doc)).collect(),
            RIdent::Map(b) => {
                let mut members: Option<Vec<RSet>> = None;
                if b.0.len() == 1 {
                    let e = &b.0[0];
                    if let (RVal::List(ms), KeyMod::None | KeyMod::Str | KeyMod::Int | KeyMod::Flt) =
                        (&e.val, &e.modifier)
                    {
                        // a list that is all there is to the identifier: its members are the
                        // entries that are counted (C08: "the members as written")
                        let v = match self.lookup(doc, &e.field) {
                            Ok(v) => v,
                            Err(()) => return self.njr("key is not a well-formed path"),
                        };
                        members = Some(ms.iter().map(|x| self.eval_member(&e.modifier, x, v, true)).collect());
                    }
                }
                match members {
                    Some(ops) => ops,
                    None => b.0.iter().map(|e| self.eval_entry(e, doc)).collect(),
                }
            }
        };
        if self.opts.engine_exact {
            let shape = match id {
                RIdent::Map(b) if b.0.len() == 1 && ops.len() == 1 => QuantShape::Single,
                _ => QuantShape::Group,
            };
            if let Some(r) = set_quant_exact(q, &ops, shape) {
                return r;
            }
        }
        set_quant(q, &ops)
    }

    pub fn eval_block(&self, b: &RBlock, obj: &DObj) -> RSet {
        self.eval_block_ctx(b, obj, false)
    }

    fn eval_block_ctx(&self, b: &RBlock, obj: &DObj, under_or: bool) -> RSet {
        // a block that is just one nested block inside an or-group is merged with its same-holder
        // siblings by shake, which puts the inner blocks directly under an or
        let single_under_or = under_or && b.0.len() == 1;
        let ops: Vec<RSet> = b.0.iter().map(|e| self.eval_entry_ctx(e, obj, single_under_or)).collect();
        set_and(&ops, self.relax_and(Self::block_has_nested(b), under_or))
    }

    fn lookup<'d>(&self, obj: &'d DObj, field: &str) -> Result<Option<&'d DocVal>, ()> {
        resolve(obj, field)
    }

    pub fn eval_entry(&self, e: &REntry, obj: &DObj) -> RSet {
        self.eval_entry_ctx(e, obj, false)
    }

    fn eval_entry_ctx(&self, e: &REntry, obj: &DObj, single_under_or: bool) -> RSet {
        let v = match self.lookup(obj, &e.field) {
            Ok(v) => v,
            Err(()) => return self.njr("key is not a well-formed path"),
        };
        match &e.modifier {
            KeyMod::Not => {
                let inner = match &e.val {
                    RVal::List(ms) => {
                        let ops: Vec<RSet> =
                            ms.iter().map(|m| self.eval_member(&KeyMod::None, m, v, true)).collect();
                        set_or(&ops)
                    }
                    other => self.eval_member(&KeyMod::None, other, v, false),
                };
                set_not(inner)
            }
            KeyMod::All | KeyMod::Of(_) => {
                let ms = match &e.val {
                    RVal::List(ms) => ms,
                    _ => return self.nj(),
                };
                let ops: Vec<RSet> =
                    ms.iter().map(|m| self.eval_member(&KeyMod::None, m, v, true)).collect();
                if self.opts.engine_exact {
                    if let Some(r) = set_quant_exact(&e.modifier, &ops, list_shape(ms)) {
                        return r;
                    }
                }
                set_quant(&e.modifier, &ops)
            }
            m => match &e.val {
                RVal::List(ms) => {
                    let ops: Vec<RSet> = ms.iter().map(|x| self.eval_member(m, x, v, true)).collect();
                    set_or(&ops)
                }
                other => self.eval_member(m, other, v, single_under_or),
            },
        }
    }

    /// One member (`field: value`, value not a list) under modifier None / Int / Flt / Str.
    fn eval_member(&self, m: &KeyMod, val: &RVal, v: Option<&DocVal>, in_list: bool) -> RSet {
        let v = match v {
            None => return M,
            Some(v) => v,
        };
        match (m, val) {
            (_, RVal::List(_)) => self.nj(),
            // ---- nested block
            (KeyMod::None, RVal::Block(b)) => match v {
                DocVal::Obj(o) => self.eval_block_ctx(b, o, in_list),
                DocVal::Arr(a) => {
                    let mut any_obj = false;
                    let mut can_t = false;
                    let mut must_t = false;
                    for x in &a.0 {
                        if let DocVal::Obj(o) = x {
                            any_obj = true;
                            let r = self.eval_block_ctx(b, o, in_list);
                            if r & T != 0 {
                                can_t = true;
                            }
                            if r == T {
                                must_t = true;
                            }
                        }
                    }
                    if !any_obj {
                        return self.zone(F);
                    }
                    let mut out = 0;
                    if can_t {
                        out |= T;
                    }
                    if !must_t {
                        out |= F;
                    }
                    out
                }
                _ => self.zone(F),
            },
            (_, RVal::Block(_)) => self.nj(),
            // ---- null
            (KeyMod::None, RVal::Null) => bool_set(matches!(v, DocVal::Null)),
            (KeyMod::Str | KeyMod::Int | KeyMod::Flt, RVal::Null) => {
                // a null test under a cast: absent is missing (above); whether null itself passes
                // (it is null) or fails (null cannot be cast) is not documented
                if matches!(v, DocVal::Null) {
                    if self.opts.engine_exact {
                        T
                    } else {
                        T | F
                    }
                } else {
                    self.zone(F)
                }
            }
            (_, RVal::Null) => self.nj(),
            // ---- booleans
            (KeyMod::None, RVal::BoolC(b)) => match v {
                DocVal::Bool(x) => bool_set(x == b),
                _ => self.zone(F),
            },
            (KeyMod::Int, RVal::BoolC(b)) => self.cmp_cast_int(v, NumOp::Eq, Num::I(*b as i128)),
            (KeyMod::Str, RVal::BoolC(b)) => self.str_test(
                &Pattern { ci: false, pat: Pat::Exact(b.to_string()) },
                v,
                true,
            ),
            (KeyMod::Flt, RVal::BoolC(_)) => self.nj(),
            // ---- numbers
            (KeyMod::None, RVal::IntC(c)) => self.cmp_plain(v, NumOp::Eq, Num::I(*c)),
            (KeyMod::None, RVal::FloatC(c)) => self.cmp_plain(v, NumOp::Eq, Num::F(*c)),
            (KeyMod::Int, RVal::IntC(c)) => self.cmp_cast_int(v, NumOp::Eq, Num::I(*c)),
            (KeyMod::Flt, RVal::FloatC(c)) => self.cmp_cast_flt(v, NumOp::Eq, *c),
            (KeyMod::Str, RVal::IntC(c)) => {
                self.str_test(&Pattern { ci: false, pat: Pat::Exact(c.to_string()) }, v, true)
            }
            (KeyMod::Str, RVal::FloatC(c)) => {
                self.str_test(&Pattern { ci: false, pat: Pat::Exact(c.to_string()) }, v, true)
            }
            (_, RVal::IntC(_)) | (_, RVal::FloatC(_)) => self.nj(),
            // ---- patterns
            (KeyMod::None, RVal::Pat(p)) => match p.pat {
                Pat::Num(op, NumConst::I(c)) => self.cmp_plain(v, op, Num::I(c as i128)),
                Pat::Num(op, NumConst::F(c)) => self.cmp_plain(v, op, Num::F(c)),
                _ => self.str_test(p, v, false),
            },
            (KeyMod::Str, RVal::Pat(p)) => {
                if p.is_string_kind() {
                    self.str_test(p, v, true)
                } else {
                    self.nj()
                }
            }
            (KeyMod::Int, RVal::Pat(p)) => match p.pat {
                Pat::Num(op, NumConst::I(c)) => self.cmp_cast_int(v, op, Num::I(c as i128)),
                _ => self.nj(),
            },
            (KeyMod::Flt, RVal::Pat(p)) => match p.pat {
                Pat::Num(op, NumConst::F(c)) => self.cmp_cast_flt(v, op, c),
                _ => self.nj(),
            },
            (KeyMod::Not | KeyMod::All | KeyMod::Of(_), _) => self.nj(),
        }
    }

    fn str_test(&self, p: &Pattern, v: &DocVal, cast: bool) -> RSet {
        let scalar_text = |x: &DocVal| -> Option<String> {
            match x {
                DocVal::Str(s) => Some(s.clone()),
                DocVal::Bool(_) | DocVal::Int(_) | DocVal::UInt(_) | DocVal::Float(_) if cast => conv_str(x),
                _ => None,
            }
        };
        match v {
            DocVal::Arr(a) => {
                let mut any_text = false;
                for x in &a.0 {
                    if let Some(t) = scalar_text(x) {
                        any_text = true;
                        if test_string(p, &t) {
                            return T;
                        }
                    }
                }
                if any_text {
                    F
                } else {
                    self.zone(F)
                }
            }
            other => match scalar_text(other) {
                Some(t) => bool_set(test_string(p, &t)),
                // C09: a cast of a value that is not convertible gives false
                None if cast => F,
                None => self.zone(M),
            },
        }
    }

    /// Numeric comparison without a cast: the field must already be a number.
    fn cmp_plain(&self, v: &DocVal, op: NumOp, c: Num) -> RSet {
        let x = match as_num(v) {
            Some(x) => x,
            None => return self.zone(F),
        };
        let exact = bool_set(cmp_exact(x, op, c));
        let same_kind = match (v, c) {
            (DocVal::Int(_), Num::I(_)) => true,
            // integers are one numeric kind, whatever the width the document library chose
            (DocVal::UInt(_), Num::I(_)) => true,
            (DocVal::Float(_), Num::F(_)) => true,
            _ => false,
        };
        if same_kind {
            exact
        } else if self.opts.engine_exact {
            F
        } else {
            exact | F
        }
    }

    fn cmp_cast_int(&self, v: &DocVal, op: NumOp, c: Num) -> RSet {
        match conv_int(v) {
            Conv::Ok(x) => bool_set(cmp_exact(x, op, c)),
            Conv::Big(x) => {
                if self.opts.engine_exact {
                    F
                } else {
                    bool_set(cmp_exact(x, op, c)) | FM
                }
            }
            Conv::Either(a, b) => {
                if self.opts.engine_exact {
                    bool_set(cmp_exact(self.rounded(v, a, b), op, c))
                } else {
                    bool_set(cmp_exact(a, op, c)) | bool_set(cmp_exact(b, op, c))
                }
            }
            Conv::No => self.zone(F),
            Conv::NotJudged => self.nj(),
        }
    }

    /// round half away from zero, as `f64::round` does
    fn rounded(&self, v: &DocVal, floor: Num, ceil: Num) -> Num {
        match v {
            DocVal::Float(f) => {
                if f.round() == f.floor() {
                    floor
                } else {
                    ceil
                }
            }
            _ => floor,
        }
    }

    fn cmp_cast_flt(&self, v: &DocVal, op: NumOp, c: f64) -> RSet {
        match conv_flt(v) {
            Conv::Ok(x) => bool_set(cmp_exact(x, op, Num::F(c))),
            Conv::No => self.zone(F),
            _ => self.nj(),
        }
    }

    fn eval_cmp(&self, a: &Operand, op: NumOp, b: &Operand, doc: &DObj) -> RSet {
        if self.opts.engine_exact {
            if let Some(r) = self.eval_cmp_exact(a, op, b, doc) {
                return r;
            }
        }
        // string equality of two fields
        if let (Operand::Cast(CastKind::Str, fa), Operand::Cast(CastKind::Str, fb)) = (a, b) {
            let (va, vb) = match (self.lookup(doc, fa), self.lookup(doc, fb)) {
                (Ok(x), Ok(y)) => (x, y),
                _ => return self.nj(),
            };
            return match (va, vb) {
                (None, None) => M,
                (None, Some(y)) => {
                    if conv_str(y).is_some() {
                        M
                    } else {
                        FM
                    }
                }
                (Some(x), None) => {
                    if conv_str(x).is_some() {
                        M
                    } else {
                        FM
                    }
                }
                (Some(x), Some(y)) => match (conv_str(x), conv_str(y)) {
                    (Some(s), Some(t)) => bool_set(s == t),
                    _ => FM,
                },
            };
        }
        enum Side {
            Absent,
            Val(Conv),
        }
        let side = |o: &Operand| -> Result<Side, ()> {
            Ok(match o {
                Operand::Int(i) => Side::Val(Conv::Ok(Num::I(*i as i128))),
                Operand::Float(f) => Side::Val(Conv::Ok(Num::F(*f))),
                Operand::Cast(k, f) => match self.lookup(doc, f)? {
                    None => Side::Absent,
                    Some(v) => Side::Val(match k {
                        CastKind::Int => conv_int(v),
                        CastKind::Flt => conv_flt(v),
                        CastKind::Str => Conv::No,
                    }),
                },
            })
        };
        let (sa, sb) = match (side(a), side(b)) {
            (Ok(x), Ok(y)) => (x, y),
            _ => return self.nj(),
        };
        match (sa, sb) {
            (Side::Absent, Side::Absent) => M,
            (Side::Absent, Side::Val(c)) | (Side::Val(c), Side::Absent) => match c {
                Conv::Ok(_) | Conv::Either(_, _) => M,
                Conv::No | Conv::Big(_) => FM,
                Conv::NotJudged => self.nj(),
            },
            (Side::Val(x), Side::Val(y)) => match (x, y) {
                (Conv::NotJudged, _) | (_, Conv::NotJudged) => self.nj(),
                (Conv::No, _) | (_, Conv::No) => FM,
                (Conv::Ok(p), Conv::Ok(q)) => bool_set(cmp_exact(p, op, q)),
                (x, y) => {
                    // every combination of admissible conversions
                    let cands = |c: &Conv| -> (Vec<Num>, bool) {
                        match c {
                            Conv::Ok(p) => (vec![*p], false),
                            Conv::Big(p) => (vec![*p], true),
                            Conv::Either(a, b) => (vec![*a, *b], false),
                            _ => (vec![], true),
                        }
                    };
                    let (xs, xw) = cands(&x);
                    let (ys, yw) = cands(&y);
                    let mut out = if xw || yw { FM } else { 0 };
                    for p in &xs {
                        for q in &ys {
                            out |= bool_set(cmp_exact(*p, op, *q));
                        }
                    }
                    out
                }
            },
        }
    }
}

impl<'a> Evaluator<'a> {
    /// The engine inspects the left operand first, then the right one: absent => missing,
    /// unconvertible => false.
    fn eval_cmp_exact(&self, a: &Operand, op: NumOp, b: &Operand, doc: &DObj) -> Option<RSet> {
        let is_str = matches!((a, b), (Operand::Cast(CastKind::Str, _), Operand::Cast(CastKind::Str, _)));
        let mut nums = vec![];
        let mut texts = vec![];
        for o in [a, b] {
            match o {
                Operand::Int(i) => nums.push(Num::I(*i as i128)),
                Operand::Float(f) => nums.push(Num::F(*f)),
                Operand::Cast(k, f) => {
                    let v = match self.lookup(doc, f) {
                        Ok(Some(v)) => v,
                        Ok(None) => return Some(M),
                        Err(()) => return None,
                    };
                    if is_str {
                        match conv_str(v) {
                            Some(t) => texts.push(t),
                            None => return Some(F),
                        }
                    } else {
                        let c = match k {
                            CastKind::Int => conv_int(v),
                            CastKind::Flt => conv_flt(v),
                            CastKind::Str => return None,
                        };
                        match c {
                            Conv::Ok(x) => nums.push(x),
                            Conv::Either(lo, hi) => nums.push(self.rounded(v, lo, hi)),
                            Conv::No | Conv::Big(_) => return Some(F),
                            Conv::NotJudged => return None,
                        }
                    }
                }
            }
        }
        if is_str {
            return Some(bool_set(texts[0] == texts[1]));
        }
        Some(bool_set(cmp_exact(nums[0], op, nums[1])))
    }
}

/// K3 signature: a quantified key list (all / of n>=2) whose members fall into at least two
/// solver groups of which one batches two or more members into a single automaton / regex set.
pub fn k3_shape(members: &[RVal], q: &KeyMod) -> bool {
    match q {
        KeyMod::All => {}
        KeyMod::Of(n) if *n >= 2 => {}
        _ => return false,
    }
    let mut needles = 0usize; // case sensitive, non-empty-exact string members
    let mut ineedles = 0usize;
    let mut regex = 0usize;
    let mut iregex = 0usize;
    let mut singles = 0usize;
    for m in members {
        match m {
            RVal::Pat(p) => match &p.pat {
                Pat::Regex(_) => {
                    if p.ci {
                        iregex += 1
                    } else {
                        regex += 1
                    }
                }
                Pat::Exact(x) if x.is_empty() => singles += 1,
                Pat::Exact(_) | Pat::Prefix(_) | Pat::Suffix(_) | Pat::Contains(_) => {
                    if p.ci {
                        ineedles += 1
                    } else {
                        needles += 1
                    }
                }
                Pat::Any | Pat::Num(_, _) => singles += 1,
            },
            _ => singles += 1,
        }
    }
    let groups = (needles > 0) as usize
        + (ineedles > 0) as usize
        + (regex > 0) as usize
        + (iregex > 0) as usize
        + singles;
    let batched = needles >= 2 || ineedles >= 2 || regex >= 2 || iregex >= 2;
    groups >= 2 && batched
}

/// Convenience: evaluate a rule text against a document with the strict semantics.
pub fn eval_text(text: &str, doc: &DObj) -> Result<(RSet, u32), RefErr> {
    let rule = load_rule_text(text, false)?;
    let ev = Evaluator::new(&rule, EvalOpts::default());
    let r = ev.eval(doc);
    Ok((r, ev.not_judged.get()))
}
