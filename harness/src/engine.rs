//! Thin, panic-catching wrappers around the public API of tau-engine.

use std::cell::RefCell;
use std::panic::{catch_unwind, AssertUnwindSafe};
use std::sync::Once;

use tau_engine::{Document, Optimisations, Rule};

thread_local! {
    static LAST_PANIC: RefCell<Option<String>> = const { RefCell::new(None) };
}

static HOOK: Once = Once::new();

/// The last panic of any thread (the per-thread slot is lost when a worker thread dies).
pub static LAST_PANIC_ANYWHERE: std::sync::Mutex<Option<String>> = std::sync::Mutex::new(None);

/// Install a panic hook that stores message and location instead of printing them.
pub fn install_panic_hook() {
    HOOK.call_once(|| {
        std::panic::set_hook(Box::new(|info| {
            let msg = if let Some(s) = info.payload().downcast_ref::<&str>() {
                s.to_string()
            } else if let Some(s) = info.payload().downcast_ref::<String>() {
                s.clone()
            } else {
                "<non-string panic payload>".to_string()
            };
            let loc = info
                .location()
                .map(|l| format!("{}:{}", l.file(), l.line()))
                .unwrap_or_else(|| "<unknown>".into());
            if let Ok(mut g) = LAST_PANIC_ANYWHERE.lock() {
                *g = Some(format!("{msg} @ {loc}"));
            }
            LAST_PANIC.with(|p| *p.borrow_mut() = Some(format!("{msg} @ {loc}")));
        }));
    });
}

/// Run `f`, turning a panic into Err(message @ file:line).
pub fn guarded<R>(f: impl FnOnce() -> R) -> Result<R, String> {
    install_panic_hook();
    LAST_PANIC.with(|p| *p.borrow_mut() = None);
    match catch_unwind(AssertUnwindSafe(f)) {
        Ok(r) => Ok(r),
        Err(_) => Err(LAST_PANIC
            .with(|p| p.borrow_mut().take())
            .unwrap_or_else(|| "<panic without message>".into())),
    }
}

#[derive(Debug)]
pub enum Load {
    Ok(Rule),
    Rejected(String),
    Panicked(String),
}

pub fn load_text(text: &str) -> Load {
    match guarded(|| Rule::from_str(text)) {
        Ok(Ok(r)) => Load::Ok(r),
        Ok(Err(e)) => Load::Rejected(format!("{e}")),
        Err(p) => Load::Panicked(p),
    }
}

pub fn load_value(v: serde_yaml::Value) -> Load {
    match guarded(|| Rule::from_value(v)) {
        Ok(Ok(r)) => Load::Ok(r),
        Ok(Err(e)) => Load::Rejected(format!("{e}")),
        Err(p) => Load::Panicked(p),
    }
}

#[derive(Clone, Copy, Debug, PartialEq, Eq, Hash)]
pub struct Switches {
    pub coalesce: bool,
    pub shake: bool,
    pub rewrite: bool,
    pub matrix: bool,
}

impl Switches {
    pub fn from_bits(b: u8) -> Switches {
        Switches { coalesce: b & 1 != 0, shake: b & 2 != 0, rewrite: b & 4 != 0, matrix: b & 8 != 0 }
    }
    pub fn bits(&self) -> u8 {
        self.coalesce as u8 | (self.shake as u8) << 1 | (self.rewrite as u8) << 2 | (self.matrix as u8) << 3
    }
    pub fn all() -> Vec<Switches> {
        (0..16).map(Switches::from_bits).collect()
    }
    pub fn default_on() -> Switches {
        Switches::from_bits(15)
    }
    pub fn to_opts(self) -> Optimisations {
        Optimisations { coalesce: self.coalesce, shake: self.shake, rewrite: self.rewrite, matrix: self.matrix }
    }
    pub fn show(&self) -> String {
        format!(
            "coalesce={} shake={} rewrite={} matrix={}",
            self.coalesce as u8, self.shake as u8, self.rewrite as u8, self.matrix as u8
        )
    }
}

pub fn optimise(rule: &Rule, sw: Switches) -> Result<Rule, String> {
    guarded(|| rule.clone().optimise(sw.to_opts()))
}

pub fn matches(rule: &Rule, doc: &dyn Document) -> Result<bool, String> {
    guarded(|| rule.matches(doc))
}

/// Build the YAML text of a rule from a detection value and example lists.
pub fn rule_text(detection: &serde_yaml::Value, tps: &[serde_yaml::Value], tns: &[serde_yaml::Value]) -> String {
    let mut m = serde_yaml::Mapping::new();
    m.insert("detection".into(), detection.clone());
    m.insert("true_positives".into(), serde_yaml::Value::Sequence(tps.to_vec()));
    m.insert("true_negatives".into(), serde_yaml::Value::Sequence(tns.to_vec()));
    serde_yaml::to_string(&serde_yaml::Value::Mapping(m)).expect("yaml emit")
}

/// Three-valued result of a rule's condition recovered from two verdicts: the rule as written and
/// the rule with its condition wrapped in `not ( .. )`.
#[derive(Clone, Copy, Debug, PartialEq, Eq, Hash)]
pub enum Tri {
    T,
    F,
    M,
    /// both `C` and `not (C)` matched: impossible under the documented tables
    Both,
}

impl Tri {
    pub fn from_probe(pos: bool, neg: bool) -> Tri {
        match (pos, neg) {
            (true, false) => Tri::T,
            (false, true) => Tri::F,
            (false, false) => Tri::M,
            (true, true) => Tri::Both,
        }
    }
    pub fn show(&self) -> &'static str {
        match self {
            Tri::T => "T",
            Tri::F => "F",
            Tri::M => "M",
            Tri::Both => "T&notT",
        }
    }
    pub fn bit(&self) -> u8 {
        match self {
            Tri::T => crate::reference::T,
            Tri::F => crate::reference::F,
            Tri::M => crate::reference::M,
            Tri::Both => 0,
        }
    }
}
