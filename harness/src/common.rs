//! Plumbing shared by all checks: cases, outcomes, reports, evidence, replay files, known findings.

use std::collections::{BTreeMap, HashSet};
use std::hash::{Hash, Hasher};
use std::path::{Path, PathBuf};
use std::time::Instant;

use serde_json::{json, Value as J};

use crate::model::DObj;

pub fn verif_root() -> PathBuf {
    PathBuf::from(std::env::var("VERIF_ROOT").unwrap_or_else(|_| "/verif".to_string()))
}

// ---------------------------------------------------------------------------------------------
// Case: the serialisable unit every judge function works on (and every replay file contains)
// ---------------------------------------------------------------------------------------------

#[derive(Clone, Debug, Default)]
pub struct Case {
    /// sub-check name inside the property (selects the oracle)
    pub kind: String,
    /// YAML text of rule(s) involved
    pub rules: Vec<String>,
    pub docs: Vec<DObj>,
    /// optimisation switch set (bits: coalesce=1, shake=2, rewrite=4, matrix=8)
    pub switches: Option<u8>,
    /// free text inputs (conditions, patterns, keys ...)
    pub texts: Vec<String>,
    /// anything else the oracle needs
    pub extra: J,
}

impl Case {
    pub fn new(kind: &str) -> Case {
        Case { kind: kind.to_string(), extra: J::Null, ..Default::default() }
    }
    pub fn to_json(&self) -> J {
        json!({
            "kind": self.kind,
            "rules": self.rules,
            "docs": self.docs.iter().map(|d| d.to_tagged()).collect::<Vec<_>>(),
            "docs_readable": self.docs.iter().map(|d| d.show()).collect::<Vec<_>>(),
            "switches": self.switches,
            "texts": self.texts,
            "extra": self.extra,
        })
    }
    pub fn from_json(v: &J) -> Result<Case, String> {
        let mut c = Case::new(v.get("kind").and_then(|k| k.as_str()).ok_or("case without kind")?);
        if let Some(rs) = v.get("rules").and_then(|r| r.as_array()) {
            for r in rs {
                c.rules.push(r.as_str().ok_or("rule is not a string")?.to_string());
            }
        }
        if let Some(ds) = v.get("docs").and_then(|r| r.as_array()) {
            for d in ds {
                c.docs.push(DObj::from_tagged(d)?);
            }
        }
        c.switches = v.get("switches").and_then(|s| s.as_u64()).map(|s| s as u8);
        if let Some(ts) = v.get("texts").and_then(|r| r.as_array()) {
            for t in ts {
                c.texts.push(t.as_str().ok_or("text is not a string")?.to_string());
            }
        }
        c.extra = v.get("extra").cloned().unwrap_or(J::Null);
        Ok(c)
    }
    /// Compact rendering for evidence samples (documents readable, at most six).
    pub fn sample_json(&self) -> J {
        let mut extra = self.extra.clone();
        if let Some(o) = extra.as_object_mut() {
            for (_, v) in o.iter_mut() {
                if let Some(a) = v.as_array_mut() {
                    a.truncate(8);
                }
            }
        }
        json!({
            "kind": self.kind,
            "rules": self.rules.iter().take(2).collect::<Vec<_>>(),
            "docs": self.docs.iter().take(6).map(|d| d.show()).collect::<Vec<_>>(),
            "n_docs": self.docs.len(),
            "switches": self.switches,
            "texts": self.texts.iter().take(6).collect::<Vec<_>>(),
            "extra": extra,
        })
    }
    pub fn hash64(&self) -> u64 {
        hash_str(&self.to_json().to_string())
    }
}

pub fn hash_str(s: &str) -> u64 {
    // FNV-1a, stable across runs and processes
    let mut h: u64 = 0xcbf29ce484222325;
    for b in s.as_bytes() {
        h ^= *b as u64;
        h = h.wrapping_mul(0x100000001b3);
    }
    h
}

pub fn hash_of<Tt: Hash>(t: &Tt) -> u64 {
    struct Fnv(u64);
    impl Hasher for Fnv {
        fn finish(&self) -> u64 {
            self.0
        }
        fn write(&mut self, bytes: &[u8]) {
            for b in bytes {
                self.0 ^= *b as u64;
                self.0 = self.0.wrapping_mul(0x100000001b3);
            }
        }
    }
    let mut h = Fnv(0xcbf29ce484222325);
    t.hash(&mut h);
    h.finish()
}

#[derive(Clone, Debug)]
pub enum Outcome {
    /// property held on this case; `nontrivial` carries the distinctness key if the case is
    /// non-trivial by the property's rule
    Pass { nontrivial: Option<u64>, evaluations: u64, labels: Vec<&'static str> },
    /// the case is outside the judged domain (counted)
    Skip(String),
    /// failure attributed to a listed known finding
    Known(String),
    Violation(String),
}

// ---------------------------------------------------------------------------------------------
// Report
// ---------------------------------------------------------------------------------------------

#[derive(Clone, Debug)]
pub struct Violation {
    pub case: Case,
    pub message: String,
}

pub struct Report {
    pub id: String,
    pub tier: String,
    pub seed: u64,
    pub started: Instant,
    pub evaluations: u64,
    pub cases: u64,
    pub nontrivial: HashSet<u64>,
    pub rule: String,
    pub samples: Vec<J>,
    pub labels: BTreeMap<String, u64>,
    pub skipped: BTreeMap<String, u64>,
    pub known_hits: BTreeMap<String, u64>,
    pub exhaustive: bool,
    pub assumptions: Vec<String>,
    pub violations: Vec<Violation>,
    pub known_lines: Vec<String>,
    pub notes: Vec<String>,
    pub max_samples: usize,
}

impl Report {
    pub fn new(id: &str, tier: &str, seed: u64) -> Report {
        Report {
            id: id.to_string(),
            tier: tier.to_string(),
            seed,
            started: Instant::now(),
            evaluations: 0,
            cases: 0,
            nontrivial: HashSet::new(),
            rule: String::new(),
            samples: vec![],
            labels: BTreeMap::new(),
            skipped: BTreeMap::new(),
            known_hits: BTreeMap::new(),
            exhaustive: false,
            assumptions: vec![],
            violations: vec![],
            known_lines: vec![],
            notes: vec![],
            max_samples: 12,
        }
    }

    pub fn label(&mut self, l: &str) {
        *self.labels.entry(l.to_string()).or_insert(0) += 1;
    }
    pub fn label_n(&mut self, l: &str, n: u64) {
        *self.labels.entry(l.to_string()).or_insert(0) += n;
    }

    pub fn sample(&mut self, s: J) {
        if self.samples.len() < self.max_samples {
            self.samples.push(s);
        }
    }

    /// Record the outcome of judging `case`.
    pub fn record(&mut self, case: &Case, outcome: Outcome) {
        self.cases += 1;
        match outcome {
            Outcome::Pass { nontrivial, evaluations, labels } => {
                self.evaluations += evaluations;
                for l in labels {
                    *self.labels.entry(l.to_string()).or_insert(0) += 1;
                }
                if let Some(k) = nontrivial {
                    if self.nontrivial.insert(k) && self.samples.len() < self.max_samples
                        // spread samples: keep the first few and then every so often
                        && (self.samples.len() < 4 || self.nontrivial.len() % 97 == 0)
                    {
                        self.samples.push(case.sample_json());
                    }
                }
            }
            Outcome::Skip(why) => {
                *self.skipped.entry(why).or_insert(0) += 1;
            }
            Outcome::Known(sig) => {
                *self.known_hits.entry(sig).or_insert(0) += 1;
            }
            Outcome::Violation(message) => {
                if self.violations.len() < 20 {
                    self.violations.push(Violation { case: case.clone(), message });
                }
            }
        }
    }

    pub fn merge(&mut self, other: Report) {
        self.evaluations += other.evaluations;
        self.cases += other.cases;
        self.nontrivial.extend(other.nontrivial);
        for s in other.samples {
            if self.samples.len() < self.max_samples {
                self.samples.push(s);
            }
        }
        for (k, v) in other.labels {
            *self.labels.entry(k).or_insert(0) += v;
        }
        for (k, v) in other.skipped {
            *self.skipped.entry(k).or_insert(0) += v;
        }
        for (k, v) in other.known_hits {
            *self.known_hits.entry(k).or_insert(0) += v;
        }
        for v in other.violations {
            if self.violations.len() < 20 {
                self.violations.push(v);
            }
        }
        self.known_lines.extend(other.known_lines);
        self.notes.extend(other.notes);
    }

    pub fn sub(&self) -> Report {
        Report::new(&self.id, &self.tier, self.seed)
    }

    /// Write evidence and replay files, print the interface lines, return the exit code.
    pub fn finish(mut self) -> i32 {
        let wall = self.started.elapsed().as_secs_f64();
        let root_buf = verif_root();
        let root = root_buf.as_path();
        // replay files
        let mut violation_lines = vec![];
        let mut seen = HashSet::new();
        for v in &self.violations {
            let mut j = v.case.to_json();
            j["property"] = json!(self.id);
            j["message"] = json!(v.message);
            j["seed"] = json!(self.seed);
            j["tier"] = json!(self.tier);
            let h = v.case.hash64();
            if !seen.insert(h) {
                continue;
            }
            let dir = root.join("replays").join(&self.id);
            let _ = std::fs::create_dir_all(&dir);
            let path = dir.join(format!("{:016x}.json", h));
            let _ = std::fs::write(&path, serde_json::to_string_pretty(&j).unwrap());
            violation_lines.push(format!("VIOLATION property={} replay={}", self.id, path.display()));
            eprintln!("violation: {}", v.message);
        }
        if self.samples.is_empty() {
            self.samples.push(json!("no non-trivial case was sampled"));
        }
        let ev = json!({
            "property_id": self.id,
            "tier": self.tier,
            "seed": self.seed,
            "level": "exploration",
            "coverage": {
                "evaluations": self.evaluations,
                "cases": self.cases,
                "distinct_nontrivial": self.nontrivial.len(),
                "rule": self.rule,
                "samples": self.samples,
                "exhaustive": self.exhaustive,
                "labels": self.labels,
                "skipped_not_judged": self.skipped,
                "known_finding_hits": self.known_hits,
                "known_finding_lines": self.known_lines,
                "notes": self.notes,
                "violation_messages": self.violations.iter().map(|v| v.message.clone()).collect::<Vec<_>>(),
            },
            "assumptions": self.assumptions,
            "wall_s": wall,
            "violations": violation_lines.len(),
        });
        let evdir = root.join("evidence");
        let _ = std::fs::create_dir_all(&evdir);
        let evpath = evdir.join(format!("{}.json", self.id));
        if let Err(e) = std::fs::write(&evpath, serde_json::to_string_pretty(&ev).unwrap()) {
            eprintln!("cannot write evidence {}: {e}", evpath.display());
            return 2;
        }
        for l in &self.known_lines {
            println!("{l}");
        }
        println!(
            "{} tier={} seed={} cases={} evaluations={} distinct_nontrivial={} skipped={} known_hits={} wall={:.1}s",
            self.id,
            self.tier,
            self.seed,
            self.cases,
            self.evaluations,
            self.nontrivial.len(),
            self.skipped.values().sum::<u64>(),
            self.known_hits.values().sum::<u64>(),
            wall
        );
        if violation_lines.is_empty() {
            0
        } else {
            for l in &violation_lines {
                println!("{l}");
            }
            1
        }
    }
}

// ---------------------------------------------------------------------------------------------
// Known findings
// ---------------------------------------------------------------------------------------------

#[derive(Clone, Debug)]
pub struct Finding {
    pub id: String,
    pub property: String,
    pub status: String, // "known" | "fixed"
    pub signature: String,
    pub what: String,
    pub repro: PathBuf,
    pub commit: Option<String>,
}

pub fn load_findings() -> Vec<Finding> {
    let path = verif_root().join("known_findings.json");
    let text = match std::fs::read_to_string(&path) {
        Ok(t) => t,
        Err(_) => return vec![],
    };
    let v: J = match serde_json::from_str(&text) {
        Ok(v) => v,
        Err(e) => {
            eprintln!("known_findings.json does not parse: {e}");
            std::process::exit(2);
        }
    };
    let mut out = vec![];
    for e in v.get("findings").and_then(|f| f.as_array()).cloned().unwrap_or_default() {
        let s = |k: &str| e.get(k).and_then(|x| x.as_str()).unwrap_or("").to_string();
        out.push(Finding {
            id: s("id"),
            property: s("property"),
            status: s("status"),
            signature: s("signature"),
            what: s("what"),
            repro: verif_root().join(s("repro")),
            commit: e.get("commit").and_then(|x| x.as_str()).map(|x| x.to_string()),
        });
    }
    out
}

/// Signatures of the findings with status "known" for a property.
pub fn active_signatures(findings: &[Finding], property: &str) -> HashSet<String> {
    findings
        .iter()
        .filter(|f| f.status == "known" && f.property.split(',').any(|p| p.trim() == property))
        .map(|f| f.signature.clone())
        .collect()
}

pub fn load_case_file(path: &Path) -> Result<(String, Case), String> {
    let text = std::fs::read_to_string(path).map_err(|e| format!("{}: {e}", path.display()))?;
    let v: J = serde_json::from_str(&text).map_err(|e| format!("{}: {e}", path.display()))?;
    let prop = v.get("property").and_then(|p| p.as_str()).ok_or("replay file without property")?.to_string();
    Ok((prop, Case::from_json(&v)?))
}

/// Replay the committed reproductions of the findings of one property. `judge_strict` must judge
/// a case with every known-finding allowance switched off.
pub fn replay_findings(
    report: &mut Report,
    findings: &[Finding],
    judge_strict: &dyn Fn(&Case) -> Outcome,
) {
    let id = report.id.clone();
    for f in findings.iter().filter(|f| f.property.split(',').any(|p| p.trim() == id)) {
        let (prop, case) = match load_case_file(&f.repro) {
            Ok(x) => x,
            Err(e) => {
                report.notes.push(format!("finding {}: cannot load repro: {e}", f.id));
                continue;
            }
        };
        if prop != id {
            // repro belongs to another property's oracle; it is replayed there
            continue;
        }
        let out = judge_strict(&case);
        match (f.status.as_str(), out) {
            ("known", Outcome::Violation(_)) => {
                report.known_lines.push(format!("KNOWN-FINDING: property={} {} ({})", id, f.what, f.id));
            }
            ("known", _) => {
                report.notes.push(format!(
                    "finding {} ({}) no longer reproduces on this tree",
                    f.id, f.signature
                ));
            }
            ("fixed", Outcome::Violation(m)) => {
                report.violations.push(Violation {
                    case,
                    message: format!("regression of fixed finding {}: {}", f.id, m),
                });
            }
            ("fixed", _) => {
                report.label("fixed_finding_regressions_checked");
            }
            _ => {}
        }
    }
}

// ---------------------------------------------------------------------------------------------
// Parallel helper
// ---------------------------------------------------------------------------------------------

pub fn n_workers() -> usize {
    std::env::var("VERIF_JOBS")
        .ok()
        .and_then(|v| v.parse().ok())
        .unwrap_or_else(|| std::thread::available_parallelism().map(|n| n.get()).unwrap_or(4))
        .max(1)
}

/// Run `f(worker_index, n_workers)` on every worker and collect results in worker order.
pub fn par_run<R: Send>(f: impl Fn(usize, usize) -> R + Sync) -> Vec<R> {
    let n = n_workers();
    std::thread::scope(|s| {
        let handles: Vec<_> = (0..n)
            .map(|i| {
                let f = &f;
                std::thread::Builder::new()
                    .stack_size(64 << 20)
                    .spawn_scoped(s, move || f(i, n))
                    .expect("spawn")
            })
            .collect();
        handles.into_iter().map(|h| h.join().expect("worker panicked")).collect()
    })
}

/// splitmix64, used to derive per-worker seeds from VERIF_SEED.
pub fn mix(seed: u64, stream: u64) -> u64 {
    let mut z = seed.wrapping_add(0x9e3779b97f4a7c15u64.wrapping_mul(stream.wrapping_add(1)));
    z = (z ^ (z >> 30)).wrapping_mul(0xbf58476d1ce4e5b9);
    z = (z ^ (z >> 27)).wrapping_mul(0x94d049bb133111eb);
    z ^ (z >> 31)
}

/// Delta-debugging pass over the documents of a failing case: drop documents, then fields, as
/// long as `judge` still reports a violation. Returns the reduced case and its message.
pub fn minimise_case(case: &Case, judge: &dyn Fn(&Case) -> Outcome) -> (Case, String) {
    let fails = |c: &Case| -> Option<String> {
        match judge(c) {
            Outcome::Violation(m) => Some(m),
            _ => None,
        }
    };
    let mut best = case.clone();
    let mut msg = match fails(&best) {
        Some(m) => m,
        None => return (best, String::from("violation did not reproduce during minimisation")),
    };
    // documents
    let mut i = 0;
    while best.docs.len() > 1 && i < best.docs.len() {
        let mut c = best.clone();
        c.docs.remove(i);
        if let Some(m) = fails(&c) {
            best = c;
            msg = m;
        } else {
            i += 1;
        }
    }
    // top-level and second-level fields
    for di in 0..best.docs.len() {
        let mut fi = 0;
        while fi < best.docs[di].0.len() {
            let mut c = best.clone();
            c.docs[di].0.remove(fi);
            if let Some(m) = fails(&c) {
                best = c;
                msg = m;
                continue;
            }
            // try reducing inside an object value
            if let crate::model::DocVal::Obj(o) = &best.docs[di].0[fi].1 {
                let mut k = 0;
                let mut inner = o.clone();
                while k < inner.0.len() {
                    let mut candidate = inner.clone();
                    candidate.0.remove(k);
                    let mut c = best.clone();
                    c.docs[di].0[fi].1 = crate::model::DocVal::Obj(candidate.clone());
                    if let Some(m) = fails(&c) {
                        best = c;
                        msg = m;
                        inner = candidate;
                    } else {
                        k += 1;
                    }
                }
            }
            fi += 1;
        }
    }
    (best, msg)
}
