#!/bin/bash
# run_campaign.sh <seed> <seconds-per-target>
# Bounded libFuzzer campaigns (cargo-fuzz, nightly) on fresh corpora seeded with the repository's
# rule files and the committed golden inputs. Prints "FUZZ <target> execs=<n> ..." per target and
# "CRASH <path>" per crashing input. Exit code is always 0: the caller decides.
SEED="${1:-0}"; SECS="${2:-120}"
DIR="$(cd "$(dirname "$0")" && pwd)"
export CARGO_NET_OFFLINE=true
cd "$DIR/.." || exit 0
[ "$SEED" = "0" ] && SEED=1   # libFuzzer treats 0 as "random"
if ! cargo +nightly fuzz build >"$DIR/build.log" 2>&1; then
  echo "FUZZ build failed (see $DIR/build.log)"; exit 0
fi
WORK="$DIR/corpus"; rm -rf "$WORK" "$DIR/artifacts"; mkdir -p "$WORK"
pids=()
for t in load_text cond_text pattern_text load_structured; do
  mkdir -p "$WORK/$t"
  case $t in
    load_text) cp /repo/tests/rules/*.yml "$WORK/$t/" 2>/dev/null; cp "$DIR/golden/"* "$WORK/$t/" 2>/dev/null;;
    cond_text) i=0; for c in "A" "A and B" "not A" "all(A)" "of(B, 1)" "int(n1) == 1" "(A or B) and not A" "str(f1) == str(f2)"; do printf '%s' "$c" > "$WORK/$t/seed$i"; i=$((i+1)); done;;
    pattern_text) i=0; for c in "a" "*a*" "a*" "*a" "ia" "?a.*" ">=1" "<2.5" "\"a\"" "*"; do printf '\x00%s' "$c" > "$WORK/$t/seed$i"; printf '\x29%s' "$c" > "$WORK/$t/seedb$i"; i=$((i+1)); done;;
    load_structured) head -c 256 /dev/zero > "$WORK/$t/zeros"; cp /repo/tests/rules/nested.yml "$WORK/$t/" 2>/dev/null;;
  esac
  mkdir -p "$DIR/artifacts/$t" "$WORK/run_$t"
  ( cd "$WORK/run_$t" && "$DIR/target/x86_64-unknown-linux-gnu/release/$t" "$WORK/$t" -seed="$SEED" -max_total_time="$SECS" \
      -len_control=0 -max_len=2048 -dict="$DIR/dict.txt" -jobs=4 -workers=4 -print_final_stats=1 \
      -artifact_prefix="$DIR/artifacts/$t/" >"$DIR/run_$t.log" 2>&1 ) &
  pids+=($!)
done
for p in "${pids[@]}"; do wait "$p"; done
for t in load_text cond_text pattern_text load_structured; do
  n=$(grep -h "stat::number_of_executed_units" "$WORK/run_$t"/fuzz-*.log 2>/dev/null | awk '{s+=$2} END {print s+0}')
  echo "FUZZ $t execs=$n seconds=$SECS seed=$SEED"
done
find "$DIR/artifacts" -type f \( -name 'crash-*' -o -name 'timeout-*' -o -name 'oom-*' \) 2>/dev/null | while read -r f; do echo "CRASH $f"; done
exit 0
