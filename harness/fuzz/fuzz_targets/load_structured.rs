#![no_main]
use arbitrary::Unstructured;
use libfuzzer_sys::fuzz_target;
use serde_yaml::Value as Y;
mod common;

const STRINGS: &[&str] = &[
    "detection", "condition", "true_positives", "true_negatives", "A", "B", "A and B", "A or B", "not A", "all(A)",
    "of(A, 1)", "of(B, 0)", "f1", "f2", "n1", "all(f1)", "of(f1, 2)", "not(f1)", "int(n1)", "flt(n1)", "str(f1)",
    "a", "*a*", "a*", "*a", "ia", "?a.*", "?.*?b", ">=1", "<2.5", "=1", "\"", "*", "", "int(n1) == 1",
    "(A and int(n1) == int(f1)) or B",
];

fn value(u: &mut Unstructured, depth: u32) -> arbitrary::Result<Y> {
    let choice = if depth >= 6 { u.int_in_range(0..=5)? } else { u.int_in_range(0..=8)? };
    Ok(match choice {
        0 => Y::Null,
        1 => Y::Bool(u.arbitrary()?),
        2 => Y::Number(u.arbitrary::<i64>()?.into()),
        3 => Y::Number(u.arbitrary::<f64>()?.into()),
        4 => Y::String(STRINGS[u.int_in_range(0..=STRINGS.len() - 1)?].to_string()),
        5 => Y::String(u.arbitrary::<String>()?),
        6 => {
            let n = u.int_in_range(0..=4)?;
            let mut v = vec![];
            for _ in 0..n {
                v.push(value(u, depth + 1)?);
            }
            Y::Sequence(v)
        }
        _ => {
            let n = u.int_in_range(0..=4)?;
            let mut m = serde_yaml::Mapping::new();
            for _ in 0..n {
                let k = if u.ratio(9, 10)? {
                    Y::String(STRINGS[u.int_in_range(0..=STRINGS.len() - 1)?].to_string())
                } else {
                    value(u, 6)?
                };
                m.insert(k, value(u, depth + 1)?);
            }
            Y::Mapping(m)
        }
    })
}

fuzz_target!(|data: &[u8]| {
    let mut u = Unstructured::new(data);
    // a rule skeleton whose parts are arbitrary values
    let det = match value(&mut u, 1) {
        Ok(v) => v,
        Err(_) => return,
    };
    let mut m = serde_yaml::Mapping::new();
    let det = match (det, u.ratio(3, 4).unwrap_or(true)) {
        (Y::Mapping(mut d), true) => {
            let c = STRINGS[u.int_in_range(0..=STRINGS.len() - 1).unwrap_or(4)];
            d.insert("condition".into(), Y::String(c.to_string()));
            Y::Mapping(d)
        }
        (d, _) => d,
    };
    m.insert("detection".into(), det);
    m.insert("true_positives".into(), value(&mut u, 4).unwrap_or(Y::Sequence(vec![])));
    m.insert("true_negatives".into(), Y::Sequence(vec![]));
    let v = Y::Mapping(m);
    if let Ok(text) = serde_yaml::to_string(&v) {
        if !common::nesting_in_scope(&text) {
            return;
        }
        if let Ok(rule) = tau_engine::Rule::from_str(&text) {
            common::exercise(rule);
        }
    }
    if let Ok(rule) = tau_engine::Rule::from_value(v) {
        common::exercise(rule);
    }
});
