#![no_main]
use libfuzzer_sys::fuzz_target;
use tau_engine::core::parser::IdentifierParser;
mod common;

fuzz_target!(|data: &[u8]| {
    if data.is_empty() {
        return;
    }
    let role = data[0];
    if let Ok(text) = std::str::from_utf8(&data[1..]) {
        if !common::nesting_in_scope(text) {
            return;
        }
        let _ = text.to_string().into_identifier();
        use serde_yaml::Value as Y;
        let p = Y::String(text.to_string());
        let key = ["f1", "not(f1)", "str(f1)", "int(f1)", "flt(f1)", "all(f1)", "of(f1, 2)", "of(f1, 0)"][(role % 8) as usize];
        let value = match (role / 8) % 4 {
            0 => p,
            1 => Y::Sequence(vec![p]),
            2 => Y::Sequence(vec![p.clone(), Y::String("a".into()), p]),
            _ => Y::Sequence(vec![Y::String("ia".into()), p, Y::String("?b".into()), Y::String("*c*".into())]),
        };
        // the same text as a mapping key as well
        if role & 0x80 != 0 {
            if let Ok(rule) = tau_engine::Rule::from_value(common::rule_with("A", text, Y::String("a".into()))) {
                common::exercise(rule);
            }
        }
        if let Ok(rule) = tau_engine::Rule::from_value(common::rule_with("A", key, value)) {
            common::exercise(rule);
        }
    }
});
