#![no_main]
use libfuzzer_sys::fuzz_target;
use tau_engine::core::parser::Tokeniser;
mod common;

fuzz_target!(|data: &[u8]| {
    if let Ok(text) = std::str::from_utf8(data) {
        if !common::nesting_in_scope(text) {
            return;
        }
        let _ = text.to_string().tokenise();
        let v = common::rule_with(text, "f1", serde_yaml::Value::String("a".into()));
        if let Ok(rule) = tau_engine::Rule::from_value(v) {
            common::exercise(rule);
        }
    }
});
