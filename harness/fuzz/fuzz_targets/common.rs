// Shared by the fuzz targets: what is done with a rule the loader accepted (the C03 oracle: no
// panic while optimising with every switch set and matching documents of every value kind).
use std::borrow::Cow;
use tau_engine::{Document, Optimisations, Rule, Value};

pub struct Every(pub u8);
impl Document for Every {
    fn find(&self, key: &str) -> Option<Value<'_>> {
        let k = (self.0 as usize + key.len()) % 9;
        Some(match k {
            0 => return None,
            1 => Value::String(Cow::Borrowed("ab")),
            2 => Value::Int(i64::MIN),
            3 => Value::UInt(u64::MAX),
            4 => Value::Float(f64::NAN),
            5 => Value::Bool(true),
            6 => Value::Null,
            7 => Value::String(Cow::Borrowed("")),
            _ => Value::Float(1e300),
        })
    }
}

pub fn exercise(rule: Rule) {
    let _ = rule.validate();
    for d in 0..9u8 {
        let _ = rule.matches(&Every(d));
    }
    for bits in 0..16u8 {
        let opt = rule.clone().optimise(Optimisations {
            coalesce: bits & 1 != 0,
            shake: bits & 2 != 0,
            rewrite: bits & 4 != 0,
            matrix: bits & 8 != 0,
        });
        for d in 0..9u8 {
            let _ = opt.matches(&Every(d));
        }
    }
}

pub fn rule_with(cond: &str, key: &str, value: serde_yaml::Value) -> serde_yaml::Value {
    use serde_yaml::Value as Y;
    let mut inner = serde_yaml::Mapping::new();
    inner.insert(Y::String(key.to_string()), value);
    let mut det = serde_yaml::Mapping::new();
    det.insert("A".into(), Y::Mapping(inner));
    det.insert("B".into(), serde_yaml::from_str("- f1: a\n- f2: ['*b*', ic]\n").unwrap());
    det.insert("condition".into(), Y::String(cond.to_string()));
    let mut m = serde_yaml::Mapping::new();
    m.insert("detection".into(), Y::Mapping(det));
    m.insert("true_positives".into(), Y::Sequence(vec![]));
    m.insert("true_negatives".into(), Y::Sequence(vec![]));
    Y::Mapping(m)
}

/// The property bounds nesting depth by 64 (native stack exhaustion is out of scope): inputs that
/// could nest deeper are not fed to the engine. Counting openers bounds the depth from above.
pub fn nesting_in_scope(text: &str) -> bool {
    let openers = text.bytes().filter(|b| matches!(b, b'(' | b'[' | b'{')).count();
    let nots = text.matches("not").count();
    // indentation-based YAML nesting: deepest indentation in units of one space
    let indent = text.lines().map(|l| l.len() - l.trim_start_matches([' ', '-']).len()).max().unwrap_or(0);
    openers <= 64 && nots <= 64 && indent <= 64
}
