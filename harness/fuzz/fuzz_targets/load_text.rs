#![no_main]
use libfuzzer_sys::fuzz_target;
mod common;

fuzz_target!(|data: &[u8]| {
    if let Ok(text) = std::str::from_utf8(data) {
        if !common::nesting_in_scope(text) {
            return;
        }
        if let Ok(rule) = tau_engine::Rule::from_str(text) {
            common::exercise(rule);
        }
    }
});
