#!/bin/bash
# check.sh <PROPERTY_ID> <quick|thorough>
# Rebuilds the harness (and with it tau-engine, a path dependency on /repo's working tree) and
# runs one property check. Exit 0 = held, 1 = VIOLATION, 2 = infrastructure problem.
set -u
ID="${1:?property id}"
TIER="${2:-${VERIF_TIER:-quick}}"
SEED="${VERIF_SEED:-0}"
export CARGO_NET_OFFLINE=true
DIR="$(cd "$(dirname "$0")" && pwd)"
export VERIF_ROOT="$DIR"
cd "$DIR/harness" || exit 2
if ! cargo build --release --offline >/tmp/tauverif_build_$$.log 2>&1; then
  # a tree that does not compile is not a property verdict
  grep -E "^error" -A12 /tmp/tauverif_build_$$.log | head -60
  rm -f /tmp/tauverif_build_$$.log
  echo "BUILD-FAILED: harness or /repo does not compile"
  exit 2
fi
rm -f /tmp/tauverif_build_$$.log
if [ "$ID" = "C15" ]; then
  if ! cargo build --release --offline --features ignore_case --target-dir "$DIR/harness/target-ic" >/tmp/tauverif_build_ic_$$.log 2>&1; then
    grep -E "^error" -A12 /tmp/tauverif_build_ic_$$.log | head -60
    rm -f /tmp/tauverif_build_ic_$$.log
    echo "BUILD-FAILED: ignore_case build does not compile"
    exit 2
  fi
  rm -f /tmp/tauverif_build_ic_$$.log
fi
cd "$DIR" || exit 2
exec "$DIR/harness/target/release/tauverif" check "$ID" --tier "$TIER" --seed "$SEED"
