#!/bin/bash
# Builds the harness offline from files on disk only.
set -e
export CARGO_NET_OFFLINE=true
DIR="$(cd "$(dirname "$0")" && pwd)"
cd "$DIR/harness"
cargo build --release --offline
cargo build --release --offline --features ignore_case --target-dir "$DIR/harness/target-ic"
