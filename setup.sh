#!/bin/bash
# Builds the harness offline from files on disk only.
set -e
export CARGO_NET_OFFLINE=true
cd /verif/harness
cargo build --release --offline
cargo build --release --offline --features ignore_case --target-dir /verif/harness/target-ic
