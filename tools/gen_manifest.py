#!/usr/bin/env python3
"""Writes /verif/MANIFEST.json from the table below (keeps it valid and consistent)."""
import json, subprocess
ALL = [f"C{n:02d}" for n in range(1, 18)]
CHECKS = {
 "C01": dict(tech="differential property-based testing (unoptimised vs optimised engine, all 16 switch sets) with reference-based attribution of known findings",
   text="12 000 (quick) / 400 000 (thorough) generated rules - grammar G (half negation-free) and optimiser-shaped rules (shared fields, same-holder nested blocks, matrix-shaped or-groups) - x 16 switch sets x 8 documents, plus the repository's 46 rule files: optimised verdict == unoptimised verdict and no panic in optimise()/matches(). Exploration.",
   note="Known findings K1 (double negation removal), K2 (and-group reordering) and K5 (identifier bodies restructured with coalesce off) are attributed only when the mismatch is explained by the reference interpreter relaxed by exactly those two effects, or by the (switch set, condition shape) signature; everything else is a violation. Fixed findings F5, F10, F11, F15 are replayed strictly.", ref="DESIGN.md 4 C01, 5"),
 "C02": dict(tech="property-based differential testing against an independent reference interpreter (proptest, grammar-based rule generator, recipe-based documents, set-valued oracle)",
   text="Generated-input search: 24 000 (quick) / 400 000 (thorough) grammar-generated rules x 8 documents each, the engine's three-valued result (probed with C and not (C)) must be admissible for an independently written interpreter of the rule language working from the YAML text; plus the repository's own 40 loadable rule files. Exploration, not proof: holds on everything generated.",
   note="Trusts serde_yaml as YAML parser and the regex crate for regex semantics. Undocumented zones (wrong value kind, cross-kind numeric comparison, quantified lists on array fields, the K3/K7 shapes) are set-valued or not judged and counted in evidence.", ref="DESIGN.md 4 C02, Appendix A"),
 "C03": dict(tech="property-based robustness testing with token-soup / single-edit mutation generators and adversarial documents, plus an independent validity oracle",
   text="9 000 / 300 000 rule texts from three sources (almost-valid token soup conditions, grammar rules with one random edit, valid rules) with malformed example lists; every accepted rule is optimised with 16 switch sets, matched against 43 adversarial documents (every value kind for every key, 64-bit extremes, NaN/inf, 64 KiB strings, deep objects) and validate()d: no panic, and an accepted condition mentions only existing identifiers and applies and/or/not only to predicates.",
   note="Conditions the reference parser cannot structure (unbalanced parentheses tolerated by the engine) are checked for no-panic only. The char::from_u32 matrix-key limit (> 55 295 fields in one or-group) is not attacked.", ref="DESIGN.md 4 C03"),
 "C04": dict(tech="exhaustive small-alphabet enumeration, hand-written degenerate corpus, proptest string / YAML-shape generators, in-process watchdog; thorough adds coverage-guided libFuzzer campaigns (cargo-fuzz, 4 targets)",
   text="Every string of length <= 4 over 14 symbols as condition and as mapping key, length <= 3 (thorough 4) as pattern value under every key modifier and list position; ~170 degenerate strings in all roles; 40 000 / 1 000 000 random strings and arbitrary YAML value trees (whole rule and substituted into valid rules, nesting 1..64); thorough: libFuzzer on load_text / cond_text / pattern_text / load_structured. Oracle: Ok or Err, no panic/overflow (overflow checks compiled in), terminates within 20 s (watchdog, confirmed in fresh processes). Rule::load on files holding rule texts intact or damaged at the byte level (truncation inside a character, stray bytes, BOM, CRLF) and arbitrary bytes: no panic, agreement with from_str for UTF-8 content, error for a missing path or a directory.",
   note="Native stack exhaustion beyond depth 64 is out of scope. libFuzzer campaigns are only approximately reproducible from a seed; the saved input is the reproducible unit and is replayed with the fuzz binary.", ref="DESIGN.md 4 C04"),
 "C05": dict(tech="exhaustive enumeration of small conditions + proptest for larger ones; structural comparison with an independent precedence-climbing parser, reference evaluation, metamorphic parenthesis/space/rename variants",
   text="All 3 393 well-formed conditions of <= 7 tokens (thorough 8) over A B C and/or/not/() x 27 truth assignments, plus 6 000 / 200 000 larger conditions with all()/of()/cast comparisons: parsed tree equals the reference tree (not > cmp > or > and, left-assoc), three-valued results equal the reference, and full/partial parenthesisation, extra spaces and keyword-prefixed identifier names leave every verdict unchanged. Flat chains of 8-64 operands (thorough 70) with (double) negations at the first / middle / last place; right-nested chains and towers of parentheses / not up to depth 14-16.",
   note="Associativity is pinned structurally on the unoptimised expression read through the `core` feature types.", ref="DESIGN.md 4 C05"),
 "C06": dict(tech="exhaustive enumeration of truth tables over generated rule/document pairs",
   text="Complete enumeration of every connective form x arity 1..4 (thorough 5 + nested forms) x every operand vector in {T,F,M}^k x thresholds 0..k+1; and/or/not compared as full three-valued results, all/of on truth. Exhaustive within the stated bound.",
   note="Operands are realised by documents (field equal / different / absent); three-valued results are observed through the verdicts of C and not (C).", ref="DESIGN.md 4 C06"),
 "C07": dict(tech="exhaustive small-alphabet enumeration + property-based sampling against an independent string-predicate oracle",
   text="All needles (len 0..3) x haystacks (len 0..4) over {a,b,A} x 6 pattern spellings x case flag, all ordered pairs of 108 patterns as two-member lists (exhaustive), plus 20 000 / 400 000 sampled mixed lists with multi-byte needles; verdict must equal the OR of the members' documented relations. Long needles (64 bytes - 1 KiB, thorough 4 KiB) of every relation and case flag, alone and in lists.",
   note="regex crate trusted for regex members (wiring tested, not the regex engine).", ref="DESIGN.md 4 C07"),
 "C08": dict(tech="metamorphic property-based testing (quantified list vs its members as one-member rules) + reference cross-check + palette enumeration",
   text="30 000 / 500 000 generated member lists x quantifier x threshold x three syntactic forms x 6 documents, and every list of length <= 2 (thorough 3) from a 10-pattern palette: the quantified verdict must equal the count over the members' own verdicts.",
   note="Known finding K3 (mixed-batch key lists) is attributed by a syntactic signature and reported as KNOWN-FINDING; quantified lists on array-valued fields and of(..,0) with nothing definitely false are not judged.", ref="DESIGN.md 4 C08, 5"),
 "C09": dict(tech="exhaustive boundary enumeration + property-based sampling against exact-arithmetic oracle",
   text="Every operator form x boundary constant x 58 field values (64-bit extremes, doubles incl. NaN/inf, numeric strings, wrong kinds, absent) and two-field forms over value pairs (exhaustive), plus 40 000 / 600 000 random and boundary-biased 64-bit values; results must be admissible for i128 / exact int-vs-double arithmetic. Long integer lists (runs with holes and duplicates) under plain / int / not / str keys; matrix-shaped rules with comparisons written constant-first and field-first.",
   note="Cross-kind comparisons may be false or exact; int() of a non-integral double may round either way.", ref="DESIGN.md 4 C09"),
 "C10": dict(tech="exhaustive enumeration of documents x paths against an independent resolver, metamorphic dotted-vs-nested rule forms, random-key totality (proptest)",
   text="~2 200 documents of depth <= 3 x every path of 1..3 (thorough 4) optionally indexed segments through five document representations (26M lookups), compared by value identity with an independent resolver; dotted key vs nested-mapping rule forms vs reference; 30 000 / 300 000 random key strings for totality. The lookups are repeated on decoy documents that hold literal keys spelled like path fragments (a[0], a.b, a[0][1], 0).",
   note="Only well-formed paths are compared; other keys are checked for no-panic only.", ref="DESIGN.md 4 C10"),
 "C11": dict(tech="differential property-based testing across document representations (proptest), typed std documents with boundary-biased values",
   text="6 000 / 200 000 rules x 6 documents rendered as hand-written Object, serde_yaml Mapping (built and re-read from text), serde_json Value/Map (built and re-read), HashMap<String, yaml|json|model>: same verdict (unoptimised and default-optimised) and same find() on every path; 12 000 / 300 000 typed HashMap<String, T> documents for 28 std types: value kind, numeric value and signedness preserved and ~25 discriminating rules agree with the same data as a hand-written Object.",
   note="Comparison base is the document with non-negative integers normalised to unsigned (YAML/JSON cannot carry the distinction); JSON only for finite floats.", ref="DESIGN.md 4 C11"),
 "C12": dict(tech="property-based repeat/differential testing: repeated optimise calls, two fresh worker processes, 16 threads sharing one rule with shuffled document orders",
   text="2 400 / 60 000 rules (merge-heavy, optimiser-shaped, grammar G) x 24 repeated optimise() calls and reloads: identical printed expression and verdicts; 600 / 6 000 rules compared between two freshly spawned processes; 160 / 3 000 rules matched from 16 threads in shuffled orders; verdicts independent of match history and matching leaves the rule unchanged.",
   note="Thread schedules are sampled under the OS scheduler, not enumerated (the technique cannot own the schedule here).", ref="DESIGN.md 4 C12"),
 "C13": dict(tech="property-based testing of validate() against matches() with marker-carrying generated examples and malformed entries",
   text="16 000 / 400 000 rules (optimised or not) with generated true_positives/true_negatives carrying unique markers and occasional non-mapping entries: validate() is Ok(true) iff matches() agrees with every example, otherwise a Validation error naming exactly the failing examples; never a panic.",
   note="Markers are fields the rule never addresses.", ref="DESIGN.md 4 C13"),
 "C14": dict(tech="round-trip property-based testing (serialise / reload / compare structure and verdicts) with quoting-sensitive string injection",
   text="10 000 / 300 000 rules with quoting-sensitive scalars and spaced conditions: from_str and from_value agree; to_string of the rule (as loaded and after optimise) parses to the same condition, identifiers and examples, reloads, gives the original verdicts on every document, and a second round trip is a fixed point. Curated case / cast twins and key-order twins (identifiers equal as YAML values, different as rules) followed through six serialise-and-load generations.",
   note="Identifier names are YAML strings.", ref="DESIGN.md 4 C14"),
 "C15": dict(tech="differential property-based testing between two builds (default vs ignore_case cargo feature) plus reference in ignore_case mode",
   text="8 000 / 250 000 rules x 12 documents (6 recipes and their case-swapped copies): the ignore_case build on the rule as written equals the default build on the rule with every string pattern i-prefixed, and is admissible for the reference in ignore_case mode.",
   note="The ignore_case binary is built by check.sh into harness/target-ic from the same /repo tree and runs as a child process.", ref="DESIGN.md 4 C15"),
 "C16": dict(tech="property-based testing with a recording Document/Object implementation and metamorphic unaddressed-field variants over all switch sets",
   text="8 000 / 150 000 rules x 17 optimisation states x 6 documents: every key asked of the root or of a nested object is written in the rule (never a synthetic matrix key, never keys()), and adding/removing/altering unaddressed fields (incl. fields named U+0000..U+0003, and inside nested objects) never changes a verdict.",
   note="Root keys are checked against top-level rule keys and condition cast fields, nested-object keys against keys written in nested blocks (path segments allowed).", ref="DESIGN.md 4 C16"),
 "C17": dict(tech="metamorphic property-based testing: permutation of commutative operand positions (exhaustive for <= 4 operands)",
   text="5 000 / 150 000 negation-free rules (a third conjoined with an untouched `not N`) x 8 documents: every permutation of one random commutative position (<= 4 operands, else 24 samples), reversals of up to 8 other positions and 3 global shuffles give the original verdicts, unoptimised and default-optimised.",
   note="Nothing underneath a negation, not(k) or of(..,0) is reordered.", ref="DESIGN.md 4 C17"),
}
PENDING_REASON = "check not built yet in this revision of /verif (work in progress; see DESIGN.md Appendix B)"
def main():
    checks = []
    for pid in ALL:
        if pid not in CHECKS: continue
        c = CHECKS[pid]
        checks.append({
            "property_id": pid,
            "quick_cmd": f"./check.sh {pid} quick",
            "thorough_cmd": f"./check.sh {pid} thorough",
            "evidence_file": f"/verif/evidence/{pid}.json",
            "replay_cmd_template": "./harness/target/release/tauverif replay {path}",
            "engine": "tauverif",
            "level_claimed": {"category": "exploration", "text": c["text"], "design_ref": c["ref"]},
            "level_note": c["note"],
            "technique": c["tech"],
        })
    fixes = subprocess.run("git -C /repo log --format=%h%x09%s 314a8bc..HEAD", shell=True, capture_output=True, text=True).stdout.strip().splitlines()
    m = {
        "version": 1,
        "setup_cmd": "./setup.sh",
        "hooks": {
            "guard": "tau_engine_verif",
            "enable": "no hooks are needed: every check observes the engine through its public API and the existing `core` cargo feature, which the harness enables as a dependency feature (tau-engine = { path = \"/repo\", features = [\"core\", \"json\"] })",
            "baseline_off_cmd": "cd /repo && cargo test --workspace --no-fail-fast --offline",
            "source_commits": [],
            "add_only": True,
        },
        "engines": [{"name": "tauverif", "path": "/verif/harness", "serves_properties": [c["property_id"] for c in checks],
                     "kind_free_text": "Rust binary; proptest 1.11 TestRunner with fixed seeds for sampled parts, plain enumeration for exhaustive parts; reference interpreter of the rule language; path dependency on /repo so every run rebuilds tau-engine from the working tree"}],
        "checks": checks,
        "not_applicable": [{"property_id": p, "reason": PENDING_REASON} for p in ALL if p not in CHECKS],
        "notes": "Exit codes: 0 held, 1 VIOLATION (replay file under /verif/replays/<id>/), 2 infrastructure problem (e.g. /repo does not compile). Known findings: /verif/known_findings.json. fix: commits in /repo: " + "; ".join(fixes),
    }
    json.dump(m, open("/verif/MANIFEST.json", "w"), indent=1)
    print("checks:", [c["property_id"] for c in checks], "pending:", len(m["not_applicable"]))
main()
