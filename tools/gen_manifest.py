#!/usr/bin/env python3
"""Writes /verif/MANIFEST.json from the table below (keeps it valid and consistent)."""
import json, subprocess
ALL = [f"C{n:02d}" for n in range(1, 18)]
CHECKS = {
 "C02": dict(tech="property-based differential testing against an independent reference interpreter (proptest, grammar-based rule generator, recipe-based documents, set-valued oracle)",
   text="Generated-input search: 24 000 (quick) / 400 000 (thorough) grammar-generated rules x 8 documents each, the engine's three-valued result (probed with C and not (C)) must be admissible for an independently written interpreter of the rule language working from the YAML text; plus the repository's own 40 loadable rule files. Exploration, not proof: holds on everything generated.",
   note="Trusts serde_yaml as YAML parser and the regex crate for regex semantics. Undocumented zones (wrong value kind, cross-kind numeric comparison, quantified lists on array fields, the K3/K7 shapes) are set-valued or not judged and counted in evidence.", ref="DESIGN.md 4 C02, Appendix A"),
 "C06": dict(tech="exhaustive enumeration of truth tables over generated rule/document pairs",
   text="Complete enumeration of every connective form x arity 1..4 (thorough 5 + nested forms) x every operand vector in {T,F,M}^k x thresholds 0..k+1; and/or/not compared as full three-valued results, all/of on truth. Exhaustive within the stated bound.",
   note="Operands are realised by documents (field equal / different / absent); three-valued results are observed through the verdicts of C and not (C).", ref="DESIGN.md 4 C06"),
 "C07": dict(tech="exhaustive small-alphabet enumeration + property-based sampling against an independent string-predicate oracle",
   text="All needles (len 0..3) x haystacks (len 0..4) over {a,b,A} x 6 pattern spellings x case flag, all ordered pairs of 108 patterns as two-member lists (exhaustive), plus 20 000 / 400 000 sampled mixed lists with multi-byte needles; verdict must equal the OR of the members' documented relations.",
   note="regex crate trusted for regex members (wiring tested, not the regex engine).", ref="DESIGN.md 4 C07"),
 "C08": dict(tech="metamorphic property-based testing (quantified list vs its members as one-member rules) + reference cross-check + palette enumeration",
   text="30 000 / 500 000 generated member lists x quantifier x threshold x three syntactic forms x 6 documents, and every list of length <= 2 (thorough 3) from a 10-pattern palette: the quantified verdict must equal the count over the members' own verdicts.",
   note="Known finding K3 (mixed-batch key lists) is attributed by a syntactic signature and reported as KNOWN-FINDING; quantified lists on array-valued fields and of(..,0) with nothing definitely false are not judged.", ref="DESIGN.md 4 C08, 5"),
 "C09": dict(tech="exhaustive boundary enumeration + property-based sampling against exact-arithmetic oracle",
   text="Every operator form x boundary constant x 58 field values (64-bit extremes, doubles incl. NaN/inf, numeric strings, wrong kinds, absent) and two-field forms over value pairs (exhaustive), plus 40 000 / 600 000 random and boundary-biased 64-bit values; results must be admissible for i128 / exact int-vs-double arithmetic.",
   note="Cross-kind comparisons may be false or exact; int() of a non-integral double may round either way.", ref="DESIGN.md 4 C09"),
 "C10": dict(tech="exhaustive enumeration of documents x paths against an independent resolver, metamorphic dotted-vs-nested rule forms, random-key totality (proptest)",
   text="~2 200 documents of depth <= 3 x every path of 1..3 (thorough 4) optionally indexed segments through five document representations (26M lookups), compared by value identity with an independent resolver; dotted key vs nested-mapping rule forms vs reference; 30 000 / 300 000 random key strings for totality.",
   note="Only well-formed paths are compared; other keys are checked for no-panic only.", ref="DESIGN.md 4 C10"),
}
PENDING_REASON = "check not built yet in this revision of /verif (work in progress; see DESIGN.md Appendix B)"
def main():
    checks = []
    for pid in ALL:
        if pid not in CHECKS: continue
        c = CHECKS[pid]
        checks.append({
            "property_id": pid,
            "quick_cmd": f"./check.sh {pid} quick",
            "thorough_cmd": f"./check.sh {pid} thorough",
            "evidence_file": f"/verif/evidence/{pid}.json",
            "replay_cmd_template": "./harness/target/release/tauverif replay {path}",
            "engine": "tauverif",
            "level_claimed": {"category": "exploration", "text": c["text"], "design_ref": c["ref"]},
            "level_note": c["note"],
            "technique": c["tech"],
        })
    fixes = subprocess.run("git -C /repo log --format=%h%x09%s 314a8bc..HEAD", shell=True, capture_output=True, text=True).stdout.strip().splitlines()
    m = {
        "version": 1,
        "setup_cmd": "./setup.sh",
        "hooks": {
            "guard": "tau_engine_verif",
            "enable": "no hooks are needed: every check observes the engine through its public API and the existing `core` cargo feature, which the harness enables as a dependency feature (tau-engine = { path = \"/repo\", features = [\"core\", \"json\"] })",
            "baseline_off_cmd": "cd /repo && cargo test --workspace --no-fail-fast --offline",
            "source_commits": [],
            "add_only": True,
        },
        "engines": [{"name": "tauverif", "path": "/verif/harness", "serves_properties": [c["property_id"] for c in checks],
                     "kind_free_text": "Rust binary; proptest 1.11 TestRunner with fixed seeds for sampled parts, plain enumeration for exhaustive parts; reference interpreter of the rule language; path dependency on /repo so every run rebuilds tau-engine from the working tree"}],
        "checks": checks,
        "not_applicable": [{"property_id": p, "reason": PENDING_REASON} for p in ALL if p not in CHECKS],
        "notes": "Exit codes: 0 held, 1 VIOLATION (replay file under /verif/replays/<id>/), 2 infrastructure problem (e.g. /repo does not compile). Known findings: /verif/known_findings.json. fix: commits in /repo: " + "; ".join(fixes),
    }
    json.dump(m, open("/verif/MANIFEST.json", "w"), indent=1)
    print("checks:", [c["property_id"] for c in checks], "pending:", len(m["not_applicable"]))
main()
