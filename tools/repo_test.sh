#!/bin/bash
# Runs the repository's pinned suite (guard off = the only configuration) and prints a summary.
cd /repo && CARGO_NET_OFFLINE=true cargo test --workspace --no-fail-fast --offline 2>&1 | grep -E "^test result|FAILED|panicked|error(\[|:)" | head -20
