#!/bin/bash
# soak.sh <tier> <seed-from> <seed-to> <ids...> : runs checks over a range of seeds, prints non-zero exits
TIER=$1; A=$2; B=$3; shift 3
DIR="$(cd "$(dirname "$0")/.." && pwd)"
# inside `vp run --with-repo` use the repository snapshot, so that edits to /repo do not disturb the soak
if [ -n "${VP_RUN_REPO:-}" ] && [ "$DIR" != "/verif" ]; then
  sed -i "s#path = \"/repo\"#path = \"$VP_RUN_REPO\"#" "$DIR/harness/Cargo.toml"
fi
for s in $(seq $A $B); do
  for id in "$@"; do
    out=$(VERIF_SEED=$s "$DIR/check.sh" $id $TIER 2>&1); rc=$?
    if [ $rc -ne 0 ]; then echo "== $id seed=$s rc=$rc"; echo "$out" | grep -E "VIOLATION|violation|BUILD" | head -5; 
      mkdir -p "$DIR/soak_replays/$id"; cp -r "$DIR/replays/$id/." "$DIR/soak_replays/$id/" 2>/dev/null; fi
  done
done
echo "soak done $TIER $A..$B $*"
