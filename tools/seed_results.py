#!/usr/bin/env python3
"""Compiles /verif/seeded/*/meta.json into /verif/seeded/RESULTS.md."""
import json, glob, os
rows = []
for d in sorted(glob.glob('/verif/seeded/*/')):
    m = os.path.join(d, 'meta.json')
    if not os.path.exists(m): continue
    j = json.load(open(m))
    notes = ''
    n = os.path.join(d, 'notes.md')
    if os.path.exists(n):
        txt = open(n).read()
        notes = ' '.join(txt.split())[:220]
    rows.append((j['label'], j['property'], j['verified'].get('confirmed'), j.get('caught_by', []), j.get('history', []), notes))
out = ["# Independently written breaking changes and which checks catch them", "",
       "Each change was written by a sub-agent that saw only the property text and a scratch worktree of the",
       "repository (nothing from /verif). `tools/seed_eval.py` confirmed each one in a scratch worktree (demo passes",
       "without the change, fails with it; the pinned suite passes with it), then applied it to /repo, ran the quick",
       "tier of the checks with VERIF_SEED=0 and reverted: all 17 at the first evaluation; at re-evaluations (after",
       "the checks or the tree changed, and for rounds C and D) the targeted check, the checks that caught it before,",
       "C01 and C02 (plus the check named in DESIGN.md where the targeted one cannot see the change) - so a",
       "shorter list in the latest column does not mean that the other checks stopped catching it. Patches that no",
       "longer applied after later fix commits were ported (`patch.orig.diff` keeps the author's version). `history`",
       "lists earlier evaluations of the same change against older versions of the checks (what was missed before a",
       "check was strengthened).", "",
       "| change | targets | confirmed | caught by (quick, seed 0) | earlier evaluations |", "|---|---|---|---|---|"]
for label, prop, ok, caught, hist, notes in rows:
    out.append(f"| {label} | {prop} | {'yes' if ok else 'NO'} | {', '.join(caught) if caught else '**none**'} | {'; '.join(hist)} |")
out += ["", "## What each change is (from the author's notes)", ""]
for label, prop, ok, caught, hist, notes in rows:
    out.append(f"* **{label}**: {notes}")
open('/verif/seeded/RESULTS.md', 'w').write('\n'.join(out) + '\n')
print(len(rows), 'changes;', sum(1 for r in rows if r[3]), 'caught;', sum(1 for r in rows if r[3] and r[1] in r[3]), 'caught by the targeted property check')
