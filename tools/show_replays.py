#!/usr/bin/env python3
import json,sys,glob
prop=sys.argv[1]
lim=int(sys.argv[2]) if len(sys.argv)>2 else 5
for f in sorted(glob.glob(f'/verif/replays/{prop}/*.json'))[:lim]:
    j=json.load(open(f))
    print('=====',f)
    print('kind:',j['kind'],'switches:',j.get('switches'))
    print('message:',j['message'])
    for r in j['rules'][:2]:
        print('--- rule'); print(r)
    if j.get('texts'): print('texts:',j['texts'])
    for i,d in enumerate(j.get('docs_readable',[])): print('doc',i,d)
    if j.get('extra'): print('extra:',json.dumps(j['extra'])[:600])
