#!/usr/bin/env python3
"""Apply hand-made mutants to /repo one at a time, run the named checks, revert.

usage: mutate.py [-k NAME_SUBSTR] [--props C01,C02] [--tier quick]
Mutants live in tools/mutants.py (list MUTANTS of dicts: name, file, old, new, props).
/repo must be clean; every mutant is reverted with git checkout.
"""
import subprocess, sys, os, json, time, argparse
sys.path.insert(0, os.path.dirname(__file__))
from mutants import MUTANTS

ap = argparse.ArgumentParser()
ap.add_argument('-k', default='')
ap.add_argument('--props', default='')
ap.add_argument('--tier', default='quick')
ap.add_argument('--seed', default='0')
args = ap.parse_args()

def sh(cmd, **kw):
    return subprocess.run(cmd, shell=True, capture_output=True, text=True, **kw)

st = sh('git -C /repo status --porcelain --untracked-files=no').stdout.strip()
if st:
    print('repo not clean:\n' + st); sys.exit(2)

results = []
evidence_backup = '/var/tmp/evidence_backup_mut'
sh(f'rm -rf {evidence_backup} && cp -r /verif/evidence {evidence_backup}')
import atexit
atexit.register(lambda: sh(f'rm -rf /verif/evidence && mv {evidence_backup} /verif/evidence'))
for m in MUTANTS:
    if args.k and args.k not in m['name']:
        continue
    path = os.path.join('/repo', m['file'])
    src = open(path).read()
    if src.count(m['old']) < 1:
        print(f"!! {m['name']}: pattern not found"); results.append((m['name'], 'PATTERN-NOT-FOUND', {})); continue
    open(path, 'w').write(src.replace(m['old'], m['new'], m.get('count', 1)))
    props = args.props.split(',') if args.props else m['props']
    row = {}
    try:
        for p in props:
            t = time.time()
            r = sh(f'VERIF_SEED={args.seed} /verif/check.sh {p} {args.tier}')
            row[p] = (r.returncode, round(time.time() - t, 1))
            if r.returncode == 2:
                print(r.stdout[-1500:])
    finally:
        sh('git -C /repo checkout -- .')
    caught = [p for p, (c, _) in row.items() if c == 1]
    status = 'CAUGHT' if caught else 'MISSED'
    if any(c == 2 for c, _ in row.values()): status += '(infra=2)'
    print(f"{status:8} {m['name']:45} {row}")
    results.append((m['name'], status, row))
print(json.dumps({'caught': sum(1 for r in results if r[1].startswith('CAUGHT')), 'total': len(results)}))
