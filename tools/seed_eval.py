#!/usr/bin/env python3
"""seed_eval.py <out_dir_of_variant> <label> <property> [checks...]
Confirms an independently written breaking change (patch.diff + demo.rs) in a scratch worktree,
then applies it to /repo, runs the checks, reverts, and records everything in /verif/seeded/<label>/.
"""
import subprocess, sys, os, json, shutil, time
out, label, prop = sys.argv[1], sys.argv[2], sys.argv[3]
checks = sys.argv[4:] or [f"C{n:02d}" for n in range(1, 18)]
dst = f"/verif/seeded/{label}"
os.makedirs(dst, exist_ok=True)
for f in ("patch.diff", "demo.rs", "notes.md"):
    if os.path.exists(os.path.join(out, f)):
        shutil.copy(os.path.join(out, f), os.path.join(dst, f))
def sh(cmd, cwd=None, timeout=3600):
    r = subprocess.run(cmd, shell=True, capture_output=True, text=True, cwd=cwd, timeout=timeout)
    return r.returncode, (r.stdout + r.stderr)
assert sh("git -C /repo status --porcelain --untracked-files=no")[1].strip() == "", "repo not clean"
WT = "/tmp/verify_wt"
if not os.path.exists(WT):
    rc, o = sh(f"git -C /repo worktree add -q --detach {WT} HEAD"); assert rc == 0, o
else:
    sh("git checkout -q --detach && git checkout -q -- . && git clean -fdq tests", cwd=WT)
    sh("git -C /repo rev-parse HEAD | xargs git checkout -q --detach", cwd=WT)
meta = {"label": label, "property": prop, "verified": {}, "checks": {}}
history = []
if os.path.exists(f"{dst}/meta.json"):
    try:
        old = json.load(open(f"{dst}/meta.json"))
        history = old.get("history", [])
        h = subprocess.run("git -C /verif log -1 --format=%h", shell=True, capture_output=True, text=True).stdout.strip()
        history.append(f"{old.get('verif_commit', '?')}: caught by {old.get('caught_by') or 'none'}")
    except Exception:
        pass
meta["history"] = history
meta["verif_commit"] = subprocess.run("git -C /verif log -1 --format=%h", shell=True, capture_output=True, text=True).stdout.strip()
shutil.copy(os.path.join(dst, "demo.rs"), f"{WT}/tests/seed_demo.rs")
env = "CARGO_NET_OFFLINE=true"
FEATURES = os.environ.get("DEMO_FEATURES", "core,json")
rc, o = sh(f"{env} cargo test --offline --features {FEATURES} --test seed_demo 2>&1 | tail -5", cwd=WT)
meta["verified"]["demo_without_change"] = [l for l in o.splitlines() if l.startswith("test result")]
rc, o = sh(f"git apply {dst}/patch.diff", cwd=WT)
meta["verified"]["patch_applies"] = (rc == 0)
if rc != 0:
    meta["verified"]["apply_error"] = o[-500:]
else:
    rc, o = sh(f"{env} cargo test --offline --features {FEATURES} --test seed_demo 2>&1 | tail -5", cwd=WT)
    meta["verified"]["demo_with_change"] = [l for l in o.splitlines() if l.startswith("test result")]
    os.remove(f"{WT}/tests/seed_demo.rs")
    rc, o = sh(f"{env} cargo test --workspace --no-fail-fast --offline 2>&1 | grep -E '^test result|FAILED'", cwd=WT)
    meta["verified"]["suite_with_change"] = o.strip().splitlines()
sh("git checkout -q -- . && git clean -fdq tests", cwd=WT)
ok = meta["verified"].get("patch_applies") and all(" 0 failed" in l for l in meta["verified"].get("suite_with_change", ["x"])) \
     and any("FAILED" in l or " 0 failed" not in l for l in meta["verified"].get("demo_with_change", [])) \
     and all(" 0 failed" in l for l in meta["verified"].get("demo_without_change", ["x"]))
meta["verified"]["confirmed"] = bool(ok)
if ok:
    rc, o = sh(f"git -C /repo apply {dst}/patch.diff"); assert rc == 0, o
    # evidence written while a change is applied must not replace the evidence of the clean tree
    evidence_backup = "/var/tmp/evidence_backup_seed"
    sh(f"rm -rf {evidence_backup} && cp -r /verif/evidence {evidence_backup}")
    try:
        for c in checks:
            t = time.time()
            rc, o = sh(f"VERIF_SEED=0 /verif/check.sh {c} quick")
            meta["checks"][c] = {"exit": rc, "seconds": round(time.time() - t, 1),
                                 "violation": [l for l in o.splitlines() if l.startswith("VIOLATION")][:2]}
    finally:
        sh("git -C /repo checkout -- .")
        sh(f"rm -rf /verif/evidence && mv {evidence_backup} /verif/evidence")
meta["caught_by"] = [c for c, r in meta["checks"].items() if r["exit"] == 1]
meta["what_ran"] = "demo without/with change and the pinned suite with the change in a scratch worktree of /repo HEAD; then `git -C /repo apply patch.diff`, `VERIF_SEED=0 ./check.sh <ID> quick` for the listed checks, `git -C /repo checkout -- .`"
if os.path.exists(os.path.join(dst, "notes.md")):
    meta["needs_to_manifest"] = "see notes.md (written by the author of the change)"
json.dump(meta, open(f"{dst}/meta.json", "w"), indent=1)
print(label, "confirmed" if ok else "NOT CONFIRMED", "caught_by", meta["caught_by"], {c: r["exit"] for c, r in meta["checks"].items() if r["exit"] not in (0, 1)})
